#!/usr/bin/env python3
"""Apply a seeded change to /repo, run the given checks (quick tier), restore /repo, report which checks caught it.
usage: tools_seed_run.py <seed-dir> <check-id> [<check-id> ...]   (seed-dir contains patch.diff)"""
import subprocess, sys, os, json, time
seed = sys.argv[1]; ids = sys.argv[2:]
tier = os.environ.get("SEED_TIER", "quick")
patch = os.path.join(seed, "patch.diff")
def sh(*a, **k): return subprocess.run(a, capture_output=True, text=True, **k)
st = sh("git", "-C", "/repo", "status", "--porcelain")
if st.stdout.strip():
    print("refusing: /repo has uncommitted changes:\n" + st.stdout); sys.exit(2)
r = sh("git", "-C", "/repo", "apply", patch)
if r.returncode != 0:
    print("patch does not apply:", r.stderr); sys.exit(2)
results = {}
try:
    for cid in ids:
        t0 = time.time()
        p = sh("/verif/bin/gosym", "check", cid, "--tier", tier)
        viol = [l for l in p.stdout.splitlines() if l.startswith("VIOLATION")]
        inc = [l for l in p.stdout.splitlines() if l.startswith("INCONCLUSIVE")]
        results[cid] = {"exit": p.returncode, "violations": len(viol), "inconclusive": inc[:3], "wall_s": round(time.time() - t0, 1),
                        "detail": [l.strip() for l in p.stdout.splitlines() if "reproduced natively" in l or "holds in the model" in l][:3]}
        print(cid, "exit", p.returncode, "violations", len(viol), "inconclusive", len(inc), f"{time.time()-t0:.0f}s")
        for l in results[cid]["detail"]: print("    ", l[:300])
        if p.returncode == 2: print(p.stderr[-600:])
finally:
    sh("git", "-C", "/repo", "checkout", "--", ".")
    # evidence/replays written during a seeded run describe the mutated tree: drop them
    sh("git", "-C", "/verif", "checkout", "--", "evidence")
json.dump(results, open(os.path.join(seed, "last_run.json"), "w"), indent=1)
