#!/bin/bash
# usage: tools_run_all.sh quick|thorough [outdir] [ids...]   - runs the checks one after the other, one log each.
# With an outdir, evidence and replays go there (trial run); without, into /verif (the registered behaviour).
tier=$1; out=$2; shift 2
ids=${@:-C01 C02 C03 C04 C05 C06 C07 C08 C09 C10 C11 C12 C13 C14 C15 C16 C17 C18 C19 C20}
export GOFLAGS=-mod=mod GOPROXY=off GOSUMDB=off GOTOOLCHAIN=local
mkdir -p /tmp/runall_$tier
for id in $ids; do
  t0=$(date +%s)
  if [ -n "$out" ] && [ "$out" != "-" ]; then export VERIF_OUTDIR=$out; mkdir -p $out; fi
  /verif/bin/gosym check $id --tier $tier > /tmp/runall_$tier/$id.log 2>&1
  rc=$?
  echo "$id exit=$rc wall=$(( $(date +%s) - t0 ))s $(tail -1 /tmp/runall_$tier/$id.log | cut -c1-160)"
done
