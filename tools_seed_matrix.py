#!/usr/bin/env python3
"""Run checks against seeded changes, each in its own scratch worktree of /repo (never /repo itself).

usage: tools_seed_matrix.py [-j N] [--tier quick|thorough] [--checks C01,C03 | --all-checks] [seed-name ...]

For every seed directory under /verif/seeded (or the ones named) a detached worktree of /repo's HEAD is
created under /tmp/seedwt/<name>, patch.diff is applied there, the checks run with VERIF_REPO pointing at
it and VERIF_OUTDIR at a scratch directory (so /verif/evidence and /verif/replays are not touched), and the
worktree is removed. Default check list for a seed: the property named in meta.json (revert-Cxx: Cxx).
Results go to seeded/<name>/last_run.json and a summary table is printed.
"""
import subprocess, sys, os, json, time, shutil, concurrent.futures as cf

SEEDED = "/verif/seeded"
WT = "/tmp/seedwt"
OUT = "/tmp/seedout"
GOSYM = os.environ.get("GOSYM_BIN", "/verif/bin/gosym")
ALL = ["C%02d" % i for i in range(1, 21)]
HOME = "/verif"

def sh(*a, **k):
    return subprocess.run(a, capture_output=True, text=True, **k)

def default_checks(name):
    mp = os.path.join(SEEDED, name, "meta.json")
    if os.path.exists(mp):
        m = json.load(open(mp))
        p = m.get("property")
        if p:
            return [p]
    if name.startswith("revert-"):
        return [name.split("-", 1)[1][:3]]
    return []

def run_seed(name, checks, tier, workers):
    wt = os.path.join(WT, name)
    out = os.path.join(OUT, name)
    shutil.rmtree(out, ignore_errors=True)
    os.makedirs(out, exist_ok=True)
    sh("git", "-C", "/repo", "worktree", "remove", "--force", wt)
    shutil.rmtree(wt, ignore_errors=True)
    r = sh("git", "-C", "/repo", "worktree", "add", "--detach", wt, "HEAD")
    if r.returncode != 0:
        return name, {"error": "worktree: " + r.stderr[-300:]}
    res = {}
    try:
        r = sh("git", "-C", wt, "apply", os.path.join(SEEDED, name, "patch.diff"))
        if r.returncode != 0:
            return name, {"error": "patch does not apply: " + r.stderr[-300:]}
        env = dict(os.environ, VERIF_REPO=wt, VERIF_OUTDIR=out, VERIF_HOME=HOME, GOSYM_WORKERS=str(workers))
        for cid in checks:
            t0 = time.time()
            p = sh(HOME + "/gosym", "check", cid, "--tier", tier, env=env)
            lines = p.stdout.splitlines()
            viol = [l for l in lines if l.startswith("VIOLATION")]
            inc = [l for l in lines if l.startswith("INCONCLUSIVE")]
            det = [l.strip() for l in lines if "reproduced natively" in l or "holds in the model" in l or "unreachable cover goal" in l]
            res[cid] = {"exit": p.returncode, "violations": len(viol), "inconclusive": [l[:300] for l in inc[:3]],
                        "wall_s": round(time.time() - t0, 1), "detail": [d[:400] for d in det[:4]], "tier": tier}
            if p.returncode == 2:
                res[cid]["stderr"] = p.stderr[-600:]
    finally:
        sh("git", "-C", "/repo", "worktree", "remove", "--force", wt)
        shutil.rmtree(wt, ignore_errors=True)
        shutil.rmtree(out, ignore_errors=True)
    return name, res

def main():
    args = sys.argv[1:]
    par, tier, checks, allc = 4, "quick", None, False
    names = []
    i = 0
    while i < len(args):
        a = args[i]
        if a == "-j":
            par = int(args[i + 1]); i += 2
        elif a == "--tier":
            tier = args[i + 1]; i += 2
        elif a == "--checks":
            checks = args[i + 1].split(","); i += 2
        elif a == "--all-checks":
            allc = True; i += 1
        else:
            names.append(a.rstrip("/").split("/")[-1]); i += 1
    if not names:
        names = sorted(d for d in os.listdir(SEEDED) if os.path.exists(os.path.join(SEEDED, d, "patch.diff")))
    os.makedirs(WT, exist_ok=True)
    # snapshot of the harness, known findings and engine binary, so that /verif can be edited while the matrix runs
    global HOME
    HOME = "/tmp/seedhome/%d" % os.getpid()
    shutil.rmtree(HOME, ignore_errors=True)
    os.makedirs(HOME)
    shutil.copytree("/verif/harness", HOME + "/harness")
    shutil.copy("/verif/known_findings.json", HOME)
    shutil.copy(GOSYM, HOME + "/gosym")
    workers = max(4, 16 // par)
    results = {}
    with cf.ThreadPoolExecutor(par) as ex:
        futs = []
        for n in names:
            cl = ALL if allc else (checks or default_checks(n))
            futs.append(ex.submit(run_seed, n, cl, tier, workers))
        for f in cf.as_completed(futs):
            n, res = f.result()
            results[n] = res
            lr = os.path.join(SEEDED, n, "last_run.json")
            prev = {}
            if os.path.exists(lr):
                try:
                    prev = json.load(open(lr))
                except Exception:
                    prev = {}
            if "error" not in res:
                prev.update(res)
                json.dump(prev, open(lr, "w"), indent=1)
            if "error" in res:
                print(f"{n}: ERROR {res['error']}", flush=True)
                continue
            for cid, r in sorted(res.items()):
                verdict = "CAUGHT" if r["exit"] == 1 else ("missed" if r["exit"] == 0 else f"exit{r['exit']}")
                print(f"{n:14s} {cid} {verdict:7s} viol={r['violations']} inc={len(r['inconclusive'])} {r['wall_s']:.0f}s  {(r['detail'] or r['inconclusive'] or [''])[0][:200]}", flush=True)
    shutil.rmtree(HOME, ignore_errors=True)

if __name__ == "__main__":
    main()
