#!/usr/bin/env python3
"""Print a witness / replay file in readable form."""
import json,base64,sys
w=json.load(open(sys.argv[1]))
print(w.get('func'),w.get('params'),'expect',w.get('expect'),w.get('detail',''))
for i in w['inputs']:
    v=i.get('ints')
    if i.get('bytes') is not None: v=base64.b64decode(i['bytes'])
    print('  in ',i['label'],i['kind'],v)
for o in w.get('observations') or []:
    v=o.get('int',0)
    if o.get('kind')=='bytes': v=base64.b64decode(o.get('bytes') or '')
    print('  obs',o['label'],v)
