package main

// Long-lived solver process (z3 -in style), global declarations, assertion stack kept in sync with the
// path condition (one push level per pc term), push/assert/check/pop per query.

import (
	"bufio"
	"fmt"
	"io"
	"os"
	"os/exec"
	"strconv"
	"strings"
	"time"
)

type SolverStats struct {
	Queries, Sat, Unsat, Unknown int
	HardQueries, Escalated       int
	Time                         time.Duration
}

type Solver struct {
	bin      string
	args     []string
	cmd      *exec.Cmd
	in       *bufio.Writer
	inc      io.WriteCloser
	out      *bufio.Reader
	defined  map[int32]bool
	vars     map[string]bool
	asserted []*Term // current assertion stack (one push level each)
	Stats    SolverStats
	tee      *os.File
	timeout  int // ms per query (0 = none)
}

var slowLog = os.Getenv("GOSYM_SLOWLOG") != ""

type SolverErr struct{ msg string }

func (e SolverErr) Error() string { return e.msg }

func NewSolver(bin string, args ...string) *Solver {
	s := &Solver{bin: bin, args: args}
	s.start()
	return s
}

func (s *Solver) start() {
	cmd := exec.Command(s.bin, s.args...)
	in, _ := cmd.StdinPipe()
	outp, _ := cmd.StdoutPipe()
	cmd.Stderr = cmd.Stdout
	if err := cmd.Start(); err != nil {
		panic(SolverErr{"cannot start solver " + s.bin + ": " + err.Error()})
	}
	s.cmd = cmd
	s.inc = in
	s.in = bufio.NewWriterSize(in, 1<<16)
	s.out = bufio.NewReaderSize(outp, 1<<16)
	s.defined = map[int32]bool{}
	s.vars = map[string]bool{}
	s.asserted = nil
	s.send("(set-option :produce-models true)")
	s.send("(set-option :global-declarations true)")
	if strings.Contains(s.bin, "cvc5") {
		s.send("(set-logic QF_BV)")
	}
}

// Reset forgets all definitions (used when the worker's term factory is reset).
func (s *Solver) Reset() {
	s.Close()
	s.start()
}

func (s *Solver) send(l string) {
	if s.tee != nil {
		s.tee.WriteString(l + "\n")
	}
	s.in.WriteString(l)
	s.in.WriteByte('\n')
}

func (s *Solver) define(t *Term) {
	switch t.Op {
	case OConst:
		return
	case OVar:
		if !s.vars[t.Name] {
			s.vars[t.Name] = true
			s.send(fmt.Sprintf("(declare-const %s %s)", t.Name, sortOf(int(t.W))))
		}
		return
	}
	if s.defined[t.id] {
		return
	}
	// iterative post-order to avoid deep recursion on long chains
	type fr struct {
		t *Term
		i int
	}
	st := []fr{{t, 0}}
	for len(st) > 0 {
		top := &st[len(st)-1]
		if top.i < 3 && top.t.A[top.i] != nil {
			a := top.t.A[top.i]
			top.i++
			if a.Op == OConst {
				continue
			}
			if a.Op == OVar {
				if !s.vars[a.Name] {
					s.vars[a.Name] = true
					s.send(fmt.Sprintf("(declare-const %s %s)", a.Name, sortOf(int(a.W))))
				}
				continue
			}
			if !s.defined[a.id] {
				st = append(st, fr{a, 0})
			}
			continue
		}
		x := top.t
		st = st[:len(st)-1]
		if !s.defined[x.id] {
			s.defined[x.id] = true
			s.send(fmt.Sprintf("(define-fun t%d () %s %s)", x.id, sortOf(int(x.W)), x.body()))
		}
	}
}

// sync makes the solver's assertion stack equal to pc.
func (s *Solver) sync(pc []*Term) {
	common := 0
	for common < len(pc) && common < len(s.asserted) && pc[common] == s.asserted[common] {
		common++
	}
	if n := len(s.asserted) - common; n > 0 {
		s.send(fmt.Sprintf("(pop %d)", n))
		s.asserted = s.asserted[:common]
	}
	for _, p := range pc[common:] {
		s.define(p)
		s.send("(push 1)")
		s.send("(assert " + p.ref() + ")")
		s.asserted = append(s.asserted, p)
	}
}

type Result int

const (
	Unsat Result = iota
	Sat
	Unknown
)

// Check: is pc ∧ extra satisfiable?  vars: terms whose values are wanted when sat.
func (s *Solver) Check(pc []*Term, extra *Term, hard bool, vars []*Term) (Result, map[string]uint64) {
	t0 := time.Now()
	defer func() {
		d := time.Since(t0)
		s.Stats.Time += d
		s.Stats.Queries++
		if slowLog && d > 500*time.Millisecond {
			x := "nil"
			if extra != nil {
				x = extra.ref()
			}
			fmt.Fprintf(os.Stderr, "slow query %.1fs hard=%v pc=%d extra=%s vars=%d\n", d.Seconds(), hard, len(pc), x, len(vars))
		}
	}()
	s.sync(pc)
	if extra != nil {
		s.define(extra)
	}
	for _, v := range vars {
		s.define(v)
	}
	s.send("(push 1)")
	if extra != nil {
		s.send("(assert " + extra.ref() + ")")
	}
	var res string
	if hard {
		s.Stats.HardQueries++
	}
	// cheap attempt in the incremental core first (no re-bit-blasting), then the qfbv tactic
	s.send("(set-option :timeout 250)")
	s.send("(check-sat)")
	s.send("(set-option :timeout 4294967295)")
	s.in.Flush()
	res = strings.TrimSpace(s.readLine())
	if res != "sat" && res != "unsat" {
		s.Stats.Escalated++
		if s.timeout > 0 {
			s.send(fmt.Sprintf("(check-sat-using (try-for qfbv %d))", s.timeout))
		} else {
			s.send("(check-sat-using qfbv)")
		}
		s.in.Flush()
		if s.timeout > 0 {
			// try-for is not always honoured inside bit-blasting: a watchdog ends a solver that overruns; the
			// query then counts as undecided (the path is reported inconclusive, never as explored)
			cmd := s.cmd
			wd := time.AfterFunc(time.Duration(s.timeout+15000)*time.Millisecond, func() { _ = cmd.Process.Kill() })
			res = strings.TrimSpace(s.readLine())
			wd.Stop()
		} else {
			res = strings.TrimSpace(s.readLine())
		}
	}
	var model map[string]uint64
	r := Unknown
	switch res {
	case "sat":
		r = Sat
		s.Stats.Sat++
		if len(vars) > 0 {
			var sb strings.Builder
			sb.WriteString("(get-value (")
			n := 0
			for _, v := range vars {
				if v.Op == OConst {
					continue
				}
				sb.WriteString(v.ref() + " ")
				n++
			}
			sb.WriteString("))")
			if n > 0 {
				s.send(sb.String())
				s.in.Flush()
				model = s.readModel()
			} else {
				model = map[string]uint64{}
			}
		}
	case "unsat":
		r = Unsat
		s.Stats.Unsat++
	default:
		s.Stats.Unknown++
		if !strings.HasPrefix(res, "unknown") && !strings.HasPrefix(res, "timeout") {
			panic(SolverErr{"solver said: " + res})
		}
	}
	s.send("(pop 1)")
	return r, model
}

func (s *Solver) readLine() string {
	l, err := s.out.ReadString('\n')
	if err != nil {
		panic(SolverErr{"solver died: " + err.Error()})
	}
	if strings.Contains(l, "(error") {
		panic(SolverErr{"solver error: " + l})
	}
	return l
}

// parse ((name #x..) (name #b..) ...) possibly spanning lines
func (s *Solver) readModel() map[string]uint64 {
	m := map[string]uint64{}
	var text strings.Builder
	depth := 0
	started := false
	for {
		l := s.readLine()
		text.WriteString(l)
		for _, ch := range l {
			if ch == '(' {
				depth++
				started = true
			} else if ch == ')' {
				depth--
			}
		}
		if started && depth == 0 {
			break
		}
	}
	f := strings.Fields(strings.NewReplacer("(", " ", ")", " ").Replace(text.String()))
	for i := 0; i+1 < len(f); i += 2 {
		name, val := f[i], f[i+1]
		var v uint64
		switch {
		case strings.HasPrefix(val, "#x"):
			v, _ = strconv.ParseUint(val[2:], 16, 64)
		case strings.HasPrefix(val, "#b"):
			v, _ = strconv.ParseUint(val[2:], 2, 64)
		case val == "true":
			v = 1
		case val == "_": // (_ bvN W)
			if i+3 < len(f) && strings.HasPrefix(f[i+2], "bv") {
				v, _ = strconv.ParseUint(f[i+2][2:], 10, 64)
				i += 2
			}
		}
		m[name] = v
	}
	return m
}

func (s *Solver) Close() {
	defer func() { recover() }()
	s.send("(exit)")
	s.in.Flush()
	s.inc.Close()
	s.cmd.Wait()
}
