package main

import (
	"fmt"
	"go/types"

	"golang.org/x/tools/go/ssa"
)

// Value is one of:
//   *Term      integer kinds, bool (W==0), uintptr
//   FloatV     concrete float
//   *StrV      string (immutable bytes, each a W=8 term)
//   *SliceV    slice with concrete geometry
//   *ArrV      array value
//   *StructV   struct value
//   *PtrV      pointer
//   *IfaceV    interface value
//   *FuncV     function / closure
//   *MapV      map
//   *ChanV     channel
//   TupleV     multi-value
//   *OpaqueV   result of a stubbed call
type Value interface{}

type Cell struct {
	V        Value
	released *bool // shared by all cells of a pooled backing array; true => use after release
}

type FloatV float64

type StrV struct{ B []*Term }

type ArrV struct{ Cells []*Cell }

type SliceV struct {
	Arr           *ArrV // nil => nil slice
	Off, Len, Cap int
}

type StructV struct{ F []*Cell }

type PtrV struct {
	C    *Cell // nil (and Arr nil) => nil pointer
	Arr  *ArrV // symbolic element pointer: element SymI of Arr.Cells[Base:Base+N]
	Base int
	N    int
	SymI *Term
	Rep  bool // representative of an equivalence class of cells: stores are not allowed
}

func (p *PtrV) IsNil() bool { return p.C == nil && p.Arr == nil }

type IfaceV struct {
	T types.Type // nil => nil interface
	V Value
}

type FuncV struct {
	Fn    *ssa.Function // nil (and Intr nil) => nil func
	Free  []Value
	Intr  func(e *Exec, args []Value) Value
	IName string
}

func (f *FuncV) IsNil() bool { return f.Fn == nil && f.Intr == nil }

type MapEntry struct {
	K       Value
	V       Value
	deleted bool
}

type MapV struct {
	Nil     bool
	Entries []*MapEntry
	index   map[string]*MapEntry // concrete-key index
	KT, VT  types.Type
	live    int
}

type ChanV struct {
	Nil    bool
	Buf    []Value
	Cap    int
	Closed bool
}

type TupleV []Value

type OpaqueV struct{ What string }

type mapIter struct {
	m     *MapV
	order []*MapEntry
	pos   int
	str   *StrV // string range
}

func widthOf(t types.Type) (int, bool) { // width, signed ; -1 if not a scalar
	switch b := t.Underlying().(type) {
	case *types.Basic:
		switch b.Kind() {
		case types.Bool, types.UntypedBool:
			return 0, false
		case types.Int8:
			return 8, true
		case types.Uint8:
			return 8, false
		case types.Int16:
			return 16, true
		case types.Uint16:
			return 16, false
		case types.Int32, types.UntypedRune:
			return 32, true
		case types.Uint32:
			return 32, false
		case types.Int, types.Int64, types.UntypedInt:
			return 64, true
		case types.Uint, types.Uint64, types.Uintptr:
			return 64, false
		}
	}
	return -1, false
}

func isFloat(t types.Type) bool {
	if b, ok := t.Underlying().(*types.Basic); ok {
		return b.Info()&types.IsFloat != 0
	}
	return false
}

func isString(t types.Type) bool {
	if b, ok := t.Underlying().(*types.Basic); ok {
		return b.Info()&types.IsString != 0
	}
	return false
}

var nilPtr = &PtrV{}

func (e *Exec) zero(t types.Type) Value {
	if w, _ := widthOf(t); w >= 0 {
		return e.tf.Const(w, 0)
	}
	switch u := t.Underlying().(type) {
	case *types.Array:
		a := &ArrV{Cells: make([]*Cell, u.Len())}
		et := u.Elem()
		if w, _ := widthOf(et); w >= 0 {
			z := e.tf.Const(w, 0)
			cs := make([]Cell, u.Len())
			for i := range cs {
				cs[i].V = z
				a.Cells[i] = &cs[i]
			}
			return a
		}
		for i := range a.Cells {
			a.Cells[i] = &Cell{V: e.zero(et)}
		}
		return a
	case *types.Slice:
		return &SliceV{}
	case *types.Struct:
		st := &StructV{F: make([]*Cell, u.NumFields())}
		for i := 0; i < u.NumFields(); i++ {
			st.F[i] = &Cell{V: e.zero(u.Field(i).Type())}
		}
		return st
	case *types.Pointer:
		return nilPtr
	case *types.Interface:
		return &IfaceV{}
	case *types.Signature:
		return &FuncV{}
	case *types.Map:
		return &MapV{Nil: true, KT: u.Key(), VT: u.Elem()}
	case *types.Chan:
		return &ChanV{Nil: true}
	case *types.Tuple:
		tv := make(TupleV, u.Len())
		for i := range tv {
			tv[i] = e.zero(u.At(i).Type())
		}
		return tv
	case *types.Basic:
		if u.Info()&types.IsString != 0 {
			return &StrV{}
		}
		if u.Info()&types.IsFloat != 0 {
			return FloatV(0)
		}
		if u.Kind() == types.UnsafePointer {
			return nilPtr
		}
		if u.Kind() == types.UntypedNil {
			return nilPtr
		}
	}
	panic(fmt.Sprintf("zero: unsupported type %s", t))
}

// copyVal implements Go value semantics for aggregate values.
func copyVal(v Value) Value {
	switch x := v.(type) {
	case *StructV:
		n := &StructV{F: make([]*Cell, len(x.F))}
		for i, c := range x.F {
			n.F[i] = &Cell{V: copyVal(c.V)}
		}
		return n
	case *ArrV:
		n := &ArrV{Cells: make([]*Cell, len(x.Cells))}
		for i, c := range x.Cells {
			n.Cells[i] = &Cell{V: copyVal(c.V)}
		}
		return n
	case TupleV:
		n := make(TupleV, len(x))
		for i := range x {
			n[i] = copyVal(x[i])
		}
		return n
	}
	return v
}

func (e *Exec) strLit(s string) *StrV {
	if v, ok := e.strCache[s]; ok {
		return v
	}
	b := make([]*Term, len(s))
	for i := 0; i < len(s); i++ {
		b[i] = e.tf.Const(8, uint64(s[i]))
	}
	v := &StrV{b}
	e.strCache[s] = v
	return v
}

// concrete string of a StrV (ok=false if any byte symbolic)
func strConc(s *StrV) (string, bool) {
	bs := make([]byte, len(s.B))
	for i, t := range s.B {
		if !t.IsConst() {
			return "", false
		}
		bs[i] = byte(t.C)
	}
	return string(bs), true
}

func (e *Exec) sliceBytes(s *SliceV) []*Term {
	out := make([]*Term, s.Len)
	for i := 0; i < s.Len; i++ {
		out[i] = e.loadCell(s.Arr.Cells[s.Off+i]).(*Term)
	}
	return out
}

func (e *Exec) newByteSlice(bs []*Term, capacity int) *SliceV {
	if capacity < len(bs) {
		capacity = len(bs)
	}
	a := &ArrV{Cells: make([]*Cell, capacity)}
	cs := make([]Cell, capacity)
	z := e.tf.Const(8, 0)
	for i := range cs {
		if i < len(bs) {
			cs[i].V = bs[i]
		} else {
			cs[i].V = z
		}
		a.Cells[i] = &cs[i]
	}
	return &SliceV{Arr: a, Off: 0, Len: len(bs), Cap: capacity}
}

func (e *Exec) concBytes(b []byte) []*Term {
	out := make([]*Term, len(b))
	for i, c := range b {
		out[i] = e.tf.Const(8, uint64(c))
	}
	return out
}
