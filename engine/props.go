package main

import "fmt"

// Per-property job lists. A bound is registered here only after it ran clean on the unchanged tree.

func job(pkg, fn string, params ...int64) *JobCfg {
	name := fn
	if len(params) > 0 {
		name = fmt.Sprintf("%s%v", fn, params)
	}
	return &JobCfg{Name: name, Pkg: pkg, Func: fn, Params: params}
}

const (
	pkgHashkit = "rcproxy/core/pkg/hashkit"
	pkgCore    = "rcproxy/core"
	pkgServer  = "rcproxy/core/server"
	pkgCodec   = "rcproxy/core/codec"
)

func init() {
	register(&CheckSpec{
		ID:       "C05",
		Patterns: []string{pkgHashkit},
		Jobs: func(tier string) []*JobCfg {
			maxL := 10
			if tier == "thorough" {
				maxL = 14
			}
			js := []*JobCfg{job(pkgHashkit, "HarnessC05Table"), job(pkgHashkit, "HarnessC05Step")}
			for L := 0; L <= maxL; L++ {
				js = append(js, job(pkgHashkit, "HarnessC05", int64(L)))
			}
			return js
		},
		Bounds: func(tier string) string {
			if tier == "thorough" {
				return "every key of length 0..14 bytes (all byte values, all brace arrangements); table lemma over all 256 indices; one-step CRC fold lemma over every 32-bit pre-state and byte"
			}
			return "every key of length 0..10 bytes (all byte values, all brace arrangements); table lemma over all 256 indices; one-step CRC fold lemma over every 32-bit pre-state and byte"
		},
		Assumptions: []string{"specification oracle: bitwise CRC16/XMODEM and the hash-tag rule written in the harness from the Redis Cluster specification"},
		Stubs:       []string{"strings.Index / bytealg.IndexByteString as closed-form first-match terms"},
		Outside:     []string{"placement of braces in keys longer than the bound (the CRC of longer untagged keys follows from the table and step lemmas by induction)"},
	})
}

var sumHash = map[string]string{"rcproxy/core/pkg/hashkit.Hash": "rcproxy/core.VerifSpecHash"}

func withSumHash(j *JobCfg) *JobCfg {
	j.Redirect = sumHash
	j.Name += "/H=spec"
	return j
}

func noMapOrder(j *JobCfg) *JobCfg { j.MapOrderOff = true; return j }

func sites(j *JobCfg, s ...string) *JobCfg { j.MapOrderSites = s; return j }

const stubWorld = "socketpair/read/write/writev/close/epoll_ctl/eventfd modelled as in-memory byte queues per descriptor; time.Now = model clock advanced by 1µs per reading and by verifrt.Sleep; sync.Pool = LIFO free list; byteslice pool = LIFO per size class with stale contents; sync/atomic = plain operations (single event-loop goroutine); logging and prometheus calls are no-ops; go statements are not scheduled"

func init() {
	// ---------------- C06 ----------------
	register(&CheckSpec{
		ID:       "C06",
		Patterns: []string{pkgCore},
		Jobs: func(tier string) []*JobCfg {
			var js []*JobCfg
			ms := []string{"CRespCodec).MGet", "CRespCodec).Del", "CRespCodec).MSet"}
			maxK, Ls := 3, []int64{0, 1, 3}
			if tier == "thorough" {
				maxK, Ls = 5, []int64{0, 1, 2, 3}
			}
			for kind := int64(0); kind < 3; kind++ {
				for k := int64(1); k <= int64(maxK); k++ {
					for _, L := range Ls {
						if tier == "thorough" && k == 5 && L == 3 && kind != 0 {
							continue
						}
						js = append(js, sites(withSumHash(job(pkgCore, "HarnessC06", kind, k, L, 1)), ms...))
					}
				}
			}
			js = append(js, sites(withSumHash(job(pkgCore, "HarnessC06", 2, 2, 1, 0)), ms...), sites(withSumHash(job(pkgCore, "HarnessC06", 2, 2, 2, 2)), ms...))
			// the real CRC/hash-tag code instead of its specification
			js = append(js, sites(job(pkgCore, "HarnessC06", 0, 2, 1, 0), ms...), sites(job(pkgCore, "HarnessC06", 0, 2, 3, 0), ms...), sites(job(pkgCore, "HarnessC06", 2, 2, 1, 1), ms...), sites(job(pkgCore, "HarnessC06", 1, 3, 1, 0), ms...))
			if tier == "thorough" {
				js = append(js, sites(job(pkgCore, "HarnessC06", 0, 3, 3, 0), ms...), sites(job(pkgCore, "HarnessC06", 1, 3, 2, 0), ms...), sites(job(pkgCore, "HarnessC06", 2, 3, 2, 1), ms...))
			}
			return js
		},
		Bounds: func(tier string) string {
			if tier == "thorough" {
				return "MGET/DEL/MSET with 1..5 keys, every key 0..3 arbitrary bytes (so duplicates, empty keys, {tags} and real slot collisions occur), values 0..2 bytes, any letter case of the command name; all iteration orders of the per-slot map (<=3 entries: all permutations, above: rotations) at the fragment builders"
			}
			return "MGET/DEL/MSET with 1..3 keys, every key 0, 1 or 3 arbitrary bytes (duplicates, empty keys, {tags}, slot collisions), values 0..2 bytes, any letter case; all iteration orders of the per-slot map at the fragment builders"
		},
		Assumptions: []string{"in the jobs marked H=spec hashkit.Hash is replaced by the key-slot specification (justified by C05); the other jobs run the real CRC code", "map iteration order is explored only inside CRespCodec.MGet/Del/MSet (insertion order elsewhere)"},
		Stubs:       []string{stubWorld},
		Outside:     []string{"key lists longer than the bound, keys longer than 3 bytes"},
	})
	// ---------------- C12 ----------------
	register(&CheckSpec{
		ID:       "C12",
		Patterns: []string{pkgServer},
		Jobs: func(tier string) []*JobCfg {
			var js []*JobCfg
			maxL := 9
			if tier == "thorough" {
				maxL = 13
			}
			for L := int64(1); L <= int64(maxL); L++ {
				js = append(js, job(pkgServer, "HarnessC12", L, 0))
			}
			cutL := int64(7)
			if tier == "thorough" {
				cutL = 9
			}
			for cut := int64(1); cut < cutL; cut++ {
				js = append(js, job(pkgServer, "HarnessC12", cutL, cut))
			}
			js = append(js, job(pkgServer, "HarnessC12Shape", 1, 1, 0), job(pkgServer, "HarnessC12Shape", 2, 2, 0), job(pkgServer, "HarnessC12Shape", 2, 1, 0), job(pkgServer, "HarnessC12Shape", 1, 2, 0))
			if tier == "thorough" {
				js = append(js, job(pkgServer, "HarnessC12Shape", 3, 2, 0), job(pkgServer, "HarnessC12Shape", 1, 3, 0), job(pkgServer, "HarnessC12Shape", 2, 2, 9), job(pkgServer, "HarnessC12Shape", 1, 1, 13))
			}
			return js
		},
		Bounds: func(tier string) string {
			if tier == "thorough" {
				return "every client input of 1..13 arbitrary bytes in one read; every input of 9 bytes in every two-read segmentation; GET-shaped requests whose count field (1..3 bytes), length fields (1..3 bytes), name (3 bytes) and key (1 byte) are arbitrary; then one well-formed request from a second client"
			}
			return "every client input of 1..9 arbitrary bytes in one read; every input of 7 bytes in every two-read segmentation; GET-shaped requests whose count field (1..2 bytes), length fields (1..2 bytes), name (3 bytes) and key (1 byte) are arbitrary; then one well-formed request from a second client"
		},
		Assumptions: []string{"oracle for 'a Redis server would reject it': a transcription of redis networking.c processMultibulkBuffer and util.c string2ll (as lenient as Redis); 'offending' input = refused by that model AND visibly malformed on a complete line or payload (so a proxy that waits for a line end is not blamed)", "every feasible Go panic inside repository code counts as a crash (the proxy has no recover and one event-loop goroutine)"},
		Stubs:       []string{stubWorld},
		Outside:     []string{"inputs longer than the bound; lengths/counts that need more digits than the shaped fields allow (integer overflow of 19+ digit lengths)"},
	})
	// ---------------- C17 ----------------
	register(&CheckSpec{
		ID:       "C17",
		Patterns: []string{pkgServer, pkgCodec},
		Jobs: func(tier string) []*JobCfg {
			js := []*JobCfg{noMapOrder(job(pkgCodec, "HarnessC17Tables"))}
			for L := int64(1); L <= 17; L++ {
				js = append(js, job(pkgCodec, "HarnessC17Name", L))
			}
			maxN := int64(3)
			if tier == "thorough" {
				maxN = 5
			}
			for n := int64(0); n <= maxN; n++ {
				js = append(js, job(pkgServer, "HarnessC17Admit", n, 0))
			}
			js = append(js, job(pkgServer, "HarnessC17Admit", 1, 1))
			js = append(js, job(pkgServer, "HarnessC17Size", 3, 2, 16, 64), job(pkgServer, "HarnessC17Size", 9, 1, 16, 64), job(pkgServer, "HarnessC17Size", 1, 9, 16, 64))
			js = append(js, job(pkgServer, "HarnessC17RspSize", 4, 5, 20), job(pkgServer, "HarnessC17RspSize", 0, 1, 12))
			if tier == "thorough" {
				js = append(js, job(pkgServer, "HarnessC17Admit", 2, 1), job(pkgServer, "HarnessC17Admit", 3, 1), job(pkgServer, "HarnessC17Size", 20, 12, 16, 96), job(pkgServer, "HarnessC17RspSize", 12, 5, 40))
			}
			return js
		},
		Bounds: func(tier string) string {
			return "command names: EVERY byte string of length 1..17 with 0..6 arguments against Transform2Type; end to end: every documented command in any letter case plus 6 undocumented names, 0..3 (quick) / 0..5 (thorough) one-byte arguments, followed by a second request in the same read, with and without a configured password; size: two pipelined requests with the limit an arbitrary value in [16,64]; reply limit arbitrary in [5,20]"
		},
		Assumptions: []string{"documented set = rows marked Yes in docs/command.md (parsed at check time) plus AUTH", "arity oracle: an independent table of the documented protocol's arity classes (exact n / at least one / even), EVAL and EVALSHA need script, numkeys and a key"},
		Stubs:       []string{stubWorld},
		Outside:     []string{"limits outside the small range, multi-megabyte requests"},
	})
}

func init() {
	register(&CheckSpec{ID: "SMOKE", Patterns: []string{pkgServer},
		Jobs: func(tier string) []*JobCfg { return []*JobCfg{job(pkgServer, "HarnessSmoke")} }})
}
