package main

import "fmt"

// Per-property job lists. A bound is registered here only after it ran clean on the unchanged tree.

func job(pkg, fn string, params ...int64) *JobCfg {
	name := fn
	if len(params) > 0 {
		name = fmt.Sprintf("%s%v", fn, params)
	}
	return &JobCfg{Name: name, Pkg: pkg, Func: fn, Params: params}
}

const (
	pkgHashkit = "rcproxy/core/pkg/hashkit"
	pkgCore    = "rcproxy/core"
	pkgServer  = "rcproxy/core/server"
	pkgCodec   = "rcproxy/core/codec"
)

func init() {
	register(&CheckSpec{
		ID:       "C05",
		Patterns: []string{pkgHashkit, pkgCore},
		Jobs: func(tier string) []*JobCfg {
			maxL := 10
			if tier == "thorough" {
				maxL = 11
			}
			js := []*JobCfg{job(pkgHashkit, "HarnessC05Table"), job(pkgHashkit, "HarnessC05Step")}
			for L := 0; L <= maxL; L++ {
				js = append(js, job(pkgHashkit, "HarnessC05", int64(L)))
			}
			// the users of the mapping: the request decoder files every fragment under the specification slot of
			// the RIGHT argument (first key; third argument for scripts; every key of a multi-key request), real CRC
			ms := []string{"CRespCodec).MGet", "CRespCodec).Del", "CRespCodec).MSet"}
			js = append(js, job(pkgCore, "HarnessC02Req", 1, 2), job(pkgCore, "HarnessC02Req", 3, 1), sites(job(pkgCore, "HarnessC06", 0, 2, 3, 0), ms...))
			// the mapping has no memory: a long key is looked up again after thousands of other long keys
			js = append(js, instrs(noMapOrder(job(pkgHashkit, "HarnessC05History", 2500, 40)), 20_000_000))
			if tier == "thorough" {
				js = append(js, instrs(noMapOrder(job(pkgHashkit, "HarnessC05History", 10000, 40)), 60_000_000), instrs(noMapOrder(job(pkgHashkit, "HarnessC05History", 3000, 64)), 40_000_000))
			}
			if tier == "thorough" {
				js = append(js, job(pkgCore, "HarnessC02Req", 2, 3), sites(job(pkgCore, "HarnessC06", 2, 2, 2, 1), ms...), sites(job(pkgCore, "HarnessC06", 1, 3, 2, 0), ms...))
			}
			return js
		},
		Bounds: func(tier string) string {
			if tier == "thorough" {
				return "every key of length 0..11 bytes (all byte values, all brace arrangements); table lemma over all 256 indices; one-step CRC fold lemma over every 32-bit pre-state and byte; end to end through the request decoder (every single-key command, scripts, MGET/DEL/MSET) with keys of 1..3 arbitrary bytes: each fragment is filed under the specification slot of the right argument; no memory: 40- and 64-byte keys looked up again after 10000 / 3000 other long keys"
			}
			return "every key of length 0..10 bytes (all byte values, all brace arrangements); table lemma over all 256 indices; one-step CRC fold lemma over every 32-bit pre-state and byte; end to end through the request decoder (every single-key command, scripts, MGET) with keys of 1..3 arbitrary bytes: each fragment is filed under the specification slot of the right argument; no memory: a 40-byte key (tagged or not) looked up again after 2500 other long keys"
		},
		Assumptions: []string{"specification oracle: bitwise CRC16/XMODEM and the hash-tag rule written in the harness from the Redis Cluster specification"},
		Stubs:       []string{"strings.Index / bytealg.IndexByteString as closed-form first-match terms"},
		Outside:     []string{"placement of braces in keys longer than the bound (the CRC of longer untagged keys follows from the table and step lemmas by induction)"},
	})
}

var sumHash = map[string]string{"rcproxy/core/pkg/hashkit.Hash": "rcproxy/core.VerifSpecHash"}

func withSumHash(j *JobCfg) *JobCfg {
	j.Redirect = sumHash
	j.Name += "/H=spec"
	return j
}

func noMapOrder(j *JobCfg) *JobCfg { j.MapOrderOff = true; return j }

// instrs raises the per-path instruction budget of a job whose single paths are long by construction
// (thousands of concrete lookups / requests in a row)
func instrs(j *JobCfg, n int) *JobCfg { j.InstrBudget = n; return j }

func sites(j *JobCfg, s ...string) *JobCfg { j.MapOrderSites = s; return j }

const stubWorld = "socketpair/read/write/writev/close/epoll_ctl/eventfd modelled as in-memory byte queues per descriptor; time.Now = model clock advanced by 1µs per reading and by verifrt.Sleep; sync.Pool = LIFO free list; byteslice pool = LIFO per size class with stale contents; sync/atomic = plain operations (single event-loop goroutine); logging and prometheus calls are no-ops; go statements are not scheduled"

func init() {
	// ---------------- C06 ----------------
	register(&CheckSpec{
		ID:       "C06",
		Patterns: []string{pkgCore},
		Jobs: func(tier string) []*JobCfg {
			var js []*JobCfg
			ms := []string{"CRespCodec).MGet", "CRespCodec).Del", "CRespCodec).MSet"}
			maxK, Ls := 3, []int64{0, 1, 3}
			if tier == "thorough" {
				maxK, Ls = 5, []int64{0, 1, 2, 3}
			}
			for kind := int64(0); kind < 3; kind++ {
				for k := int64(1); k <= int64(maxK); k++ {
					for _, L := range Ls {
						if tier == "thorough" && k == 5 && L == 3 && kind != 0 {
							continue
						}
						js = append(js, sites(withSumHash(job(pkgCore, "HarnessC06", kind, k, L, 1)), ms...))
					}
				}
			}
			js = append(js, sites(withSumHash(job(pkgCore, "HarnessC06", 2, 2, 1, 0)), ms...), sites(withSumHash(job(pkgCore, "HarnessC06", 2, 2, 2, 2)), ms...))
			// the request object comes recycled from the pool after a wider request; and a 5-key list
			js = append(js, sites(withSumHash(job(pkgCore, "HarnessC06Warm", 0, 3, 1, 0)), ms...), sites(withSumHash(job(pkgCore, "HarnessC06Warm", 1, 3, 1, 0)), ms...), sites(withSumHash(job(pkgCore, "HarnessC06Warm", 2, 2, 1, 1)), ms...), sites(withSumHash(job(pkgCore, "HarnessC06", 0, 5, 1, 0)), ms...))
			// the request object comes recycled from a multi-key request that was refused for its size
			js = append(js, sites(withSumHash(job(pkgCore, "HarnessC06Refused", 0, 3, 1, 0)), ms...), sites(withSumHash(job(pkgCore, "HarnessC06Refused", 1, 2, 1, 0)), ms...), sites(withSumHash(job(pkgCore, "HarnessC06Refused", 2, 2, 1, 1)), ms...))
			// splitting has no memory: a long history of other splits first (thorough: long enough to wrap 16-bit counters)
			if tier == "thorough" {
				js = append(js, instrs(noMapOrder(job(pkgCore, "HarnessC06History", 65534, -1)), 600_000_000), instrs(noMapOrder(job(pkgCore, "HarnessC06History", 65535, 0)), 600_000_000), instrs(noMapOrder(job(pkgCore, "HarnessC06History", 65536, 0)), 600_000_000), instrs(noMapOrder(job(pkgCore, "HarnessC06History", 70000, 0)), 600_000_000))
			} else {
				js = append(js, instrs(noMapOrder(job(pkgCore, "HarnessC06History", 65534, 0)), 600_000_000))
			}
			// the real CRC/hash-tag code instead of its specification
			js = append(js, sites(job(pkgCore, "HarnessC06", 0, 2, 1, 0), ms...), sites(job(pkgCore, "HarnessC06", 0, 2, 3, 0), ms...), sites(job(pkgCore, "HarnessC06", 2, 2, 1, 1), ms...), sites(job(pkgCore, "HarnessC06", 1, 3, 1, 0), ms...))
			if tier == "thorough" {
				js = append(js, sites(job(pkgCore, "HarnessC06", 0, 3, 3, 0), ms...), sites(job(pkgCore, "HarnessC06", 1, 3, 2, 0), ms...), sites(job(pkgCore, "HarnessC06", 2, 3, 2, 1), ms...))
			}
			return js
		},
		Bounds: func(tier string) string {
			if tier == "thorough" {
				return "MGET/DEL/MSET with 1..5 keys, every key 0..3 arbitrary bytes (so duplicates, empty keys, {tags} and real slot collisions occur), values 0..2 bytes, any letter case of the command name; all iteration orders of the per-slot map (<=3 entries: all permutations, above: rotations) at the fragment builders"
			}
			return "MGET/DEL/MSET with 1..3 keys, every key 0, 1 or 3 arbitrary bytes (duplicates, empty keys, {tags}, slot collisions), values 0..2 bytes, any letter case; all iteration orders of the per-slot map at the fragment builders; request objects recycled after a wider or a refused multi-key request; a four-slot request after 65534 other splits that do not touch one of its slots (thorough: 65534, 65535, 65536 and 70000 - the distances at which a 16-bit generation counter comes round again)"
		},
		Assumptions: []string{"in the jobs marked H=spec hashkit.Hash is replaced by the key-slot specification (justified by C05); the other jobs run the real CRC code", "map iteration order is explored only inside CRespCodec.MGet/Del/MSet (insertion order elsewhere)"},
		Stubs:       []string{stubWorld},
		Outside:     []string{"key lists longer than the bound, keys longer than 3 bytes"},
	})
	// ---------------- C12 ----------------
	register(&CheckSpec{
		ID:       "C12",
		Patterns: []string{pkgServer},
		Jobs: func(tier string) []*JobCfg {
			var js []*JobCfg
			maxL := 9
			if tier == "thorough" {
				maxL = 11
			}
			for L := int64(1); L <= int64(maxL); L++ {
				js = append(js, job(pkgServer, "HarnessC12", L, 0))
			}
			cutL := int64(7)
			if tier == "thorough" {
				cutL = 9
			}
			for cut := int64(1); cut < cutL; cut++ {
				js = append(js, job(pkgServer, "HarnessC12", cutL, cut))
			}
			js = append(js, job(pkgServer, "HarnessC12Shape", 1, 1, 1, 0, 1), job(pkgServer, "HarnessC12Shape", 2, 1, 1, 0, 1), job(pkgServer, "HarnessC12Shape", 1, 1, 2, 0, 0), job(pkgServer, "HarnessC12Shape", 1, 1, 2, 0, 2))
			// lengths that only exist with 10..20 digits: above 512 MB, next to 2^63, wrapping around 2^64
			js = append(js, job(pkgServer, "HarnessC12Len", 10, 1), job(pkgServer, "HarnessC12Len", 19, 1), job(pkgServer, "HarnessC12Len", 20, 5))
			// the other decoder branches: MGET / MSET / DEL / EVAL with one field (count, a length, numkeys, a key) arbitrary
			// well-formed but unusual pipelines (QUIT behind a pending request, requests after QUIT ...), every two-read cut
			js = append(js, noMapOrder(job(pkgServer, "HarnessC12Pipe", -1, -1)))
			for kind := int64(0); kind <= 4; kind++ {
				js = append(js, job(pkgServer, "HarnessC12Cmd", kind, -1, 2, 0))
				if tier == "thorough" {
					js = append(js, job(pkgServer, "HarnessC12Cmd", kind, -1, 1, 0), job(pkgServer, "HarnessC12Cmd", kind, -1, 3, 0), job(pkgServer, "HarnessC12Cmd", kind, -1, 2, 9))
				}
			}
			if tier == "thorough" {
				js = append(js, job(pkgServer, "HarnessC12Shape", 2, 2, 2, 0, 1), job(pkgServer, "HarnessC12Shape", 3, 1, 1, 0, 1), job(pkgServer, "HarnessC12Shape", 1, 3, 3, 0, 0), job(pkgServer, "HarnessC12Shape", 2, 2, 2, 9, 1), job(pkgServer, "HarnessC12Shape", 1, 1, 1, 13, 1), job(pkgServer, "HarnessC12Len", 20, 1), job(pkgServer, "HarnessC12Len", 18, 3))
			}
			return js
		},
		Bounds: func(tier string) string {
			if tier == "thorough" {
				return "every client input of 1..11 arbitrary bytes in one read; every input of 9 bytes in every two-read segmentation; GET-shaped requests whose count field (1..3 bytes), length fields (1..3 bytes), name (3 bytes) and key (1 byte) are arbitrary; MGET/MSET/DEL/EVAL requests with any ONE field (count, a bulk length, numkeys, a key, the name) replaced by 1..3 arbitrary bytes; six well-formed pipelines around QUIT / PING / unknown commands in every two-read cut; then three well-formed requests from a second client, which must be served and stay connected"
			}
			return "every client input of 1..9 arbitrary bytes in one read; every input of 7 bytes in every two-read segmentation; GET-shaped requests whose count field (1..2 bytes), length fields (1..2 bytes), name (3 bytes) and key (1 byte) are arbitrary; MGET/MSET/DEL/EVAL requests with any ONE field (count, a bulk length, numkeys, a key, the name) replaced by 2 arbitrary bytes; six well-formed pipelines around QUIT / PING / unknown commands in every two-read cut; then three well-formed requests from a second client, which must be served and stay connected"
		},
		Assumptions: []string{"oracle for 'a Redis server would reject it': a transcription of redis networking.c processMultibulkBuffer and util.c string2ll (as lenient as Redis); 'offending' input = refused by that model AND visibly malformed on a complete line or payload (so a proxy that waits for a line end is not blamed)", "every feasible Go panic inside repository code counts as a crash (the proxy has no recover and one event-loop goroutine)"},
		Stubs:       []string{stubWorld},
		Outside:     []string{"inputs longer than the bound; lengths/counts that need more digits than the shaped fields allow (integer overflow of 19+ digit lengths)"},
	})
	// ---------------- C17 ----------------
	register(&CheckSpec{
		ID:       "C17",
		Patterns: []string{pkgServer, pkgCodec},
		Jobs: func(tier string) []*JobCfg {
			js := []*JobCfg{noMapOrder(job(pkgCodec, "HarnessC17Tables"))}
			// every documented name with one letter replaced by 1..3 arbitrary bytes (multi-byte look-alikes included);
			// listed first: on a tree where name matching has become expensive the all-bytes-arbitrary jobs below use up
			// the time budget of the check
			js = append(js, noMapOrder(job(pkgCodec, "HarnessC17Near", 1)), noMapOrder(job(pkgCodec, "HarnessC17Near", 2)), noMapOrder(job(pkgCodec, "HarnessC17Near", 3)))
			for L := int64(1); L <= 17; L++ {
				js = append(js, job(pkgCodec, "HarnessC17Name", L))
			}

			maxN := int64(3)
			if tier == "thorough" {
				maxN = 4
			}
			for n := int64(0); n <= maxN; n++ {
				js = append(js, job(pkgServer, "HarnessC17Admit", n, 0))
			}
			js = append(js, job(pkgServer, "HarnessC17Admit", 1, 1), job(pkgServer, "HarnessC17AdmitHist", 1, 1), job(pkgServer, "HarnessC17AdmitHist", 0, 2))
			js = append(js, job(pkgServer, "HarnessC17Size", 3, 2, 16, 64), job(pkgServer, "HarnessC17Size", 9, 1, 16, 64), job(pkgServer, "HarnessC17Size", 1, 9, 16, 64))
			js = append(js, job(pkgServer, "HarnessC17RspSize", 4, 5, 20), job(pkgServer, "HarnessC17RspSize", 0, 1, 12))
			if tier == "thorough" {
				js = append(js, job(pkgServer, "HarnessC17Admit", 2, 1), job(pkgServer, "HarnessC17Admit", 3, 1), job(pkgServer, "HarnessC17Size", 20, 12, 16, 96), job(pkgServer, "HarnessC17RspSize", 12, 5, 40))
			}
			return js
		},
		Bounds: func(tier string) string {
			return "command names: EVERY byte string of length 1..17 with 0..6 arguments against Transform2Type, and every documented name with any one letter replaced by 1..3 arbitrary bytes; end to end: every documented command in any letter case plus 6 undocumented names, 0..3 (quick) / 0..4 (thorough) one-byte arguments, followed by a second request in the same read, with and without a configured password, also for a client that connects after another one went away in the middle of a request (same descriptor number, or still connected); size: two pipelined requests with the limit an arbitrary value in [16,64]; reply limit arbitrary in [5,20]"
		},
		Assumptions: []string{"documented set = rows marked Yes in docs/command.md (parsed at check time) plus AUTH", "arity oracle: an independent table of the documented protocol's arity classes (exact n / at least one / even), EVAL and EVALSHA need script, numkeys and a key"},
		Stubs:       []string{stubWorld},
		Outside:     []string{"limits outside the small range, multi-megabyte requests"},
	})
}

const (
	pkgRing    = "rcproxy/core/pkg/buffer/ring"
	pkgList    = "rcproxy/core/pkg/buffer/linkedlist"
	pkgElastic = "rcproxy/core/pkg/buffer/elastic"
	pkgAuthip  = "rcproxy/core/authip"
)

// fault bits of HarnessWorld
const (
	fHangup  = 1
	fUnowned = 2
	fDial    = 4
	fLoss    = 8
	fTimeout = 16
	fBackErr = 64
	fSplit   = 128
	fWide    = 256
	fProbe   = 512
	fBatch   = 1024
	fRemove  = 2048
	fMulti   = 4096
	fQuiet   = 8192
	fLate    = 16384
)

// request kinds of HarnessWorld
const (
	kG = 1 // GET
	kS = 2 // SET
	kM = 4 // two-key MGET
	kP = 8 // PING
	kU = 16
	kA = 32
	kQ = 64
)

func world(prop, m1, m2, steps, kinds, faults int64) *JobCfg {
	j := job(pkgServer, "HarnessWorld", prop, m1, m2, steps, kinds, faults)
	j.MapOrderOff = true
	return j
}

// worldO additionally explores the iteration order of the per-slot map in OnCReact (which fragment of
// a split request is queued first)
func worldO(prop, m1, m2, steps, kinds, faults int64) *JobCfg {
	j := job(pkgServer, "HarnessWorld", prop, m1, m2, steps, kinds, faults)
	j.MapOrderSites = []string{"OnCReact"}
	j.Name += "/order"
	return j
}

func pipe(prop, m, steps, kinds int64) *JobCfg { return world(prop, m, 0, steps, kinds, 0) }

// heavy: the long pole of its check gets 10 workers instead of a quarter of them
func heavy(j *JobCfg) *JobCfg { j.Workers = 10; return j }

const worldAssume = "event schedules are sequences of: a client read, a poller task drain (at most two other events may precede a pending drain, as with one epoll batch), a backend reply read, and the enabled faults; backends answer the oldest request received on that connection with an echo of its keys; map iteration order explored in OnCReact and CRespCodec.MGet"

func init() {
	const allKinds = 127
	register(&CheckSpec{ID: "C01", Patterns: []string{pkgServer},
		Jobs: func(tier string) []*JobCfg {
			js := []*JobCfg{heavy(world(1, 3, 0, 6, kG|kM|kP|kU, fBatch)), pipe(1, 1, 6, allKinds), pipe(1, 2, 8, allKinds), world(1, 2, 0, 7, kG|kM, fBackErr), world(1, 2, 0, 7, kG|kP, fSplit), pipe(1, 3, 6, kG|kP|kQ), world(1, 2, 1, 5, kG|kM, fMulti|fBatch), world(1, 1, 1, 6, kG|kM, fHangup), noMapOrder(job(pkgServer, "HarnessBig", 0, 5000, 20, 256)), noMapOrder(job(pkgServer, "HarnessBig", 0, 17000, 30, 32768)), noMapOrder(job(pkgServer, "HarnessC02Slow", 4)), noMapOrder(job(pkgServer, "HarnessC09Slow", 16, 3)), job(pkgServer, "HarnessC02Rsp", 7, 2, 0), job(pkgServer, "HarnessC02Rsp", 3, 1, 0)}
			if tier == "thorough" {
				// the quick jobs plus deeper ones (each measured to finish within minutes on 16 cores)
				js = append(js, heavy(world(1, 2, 1, 6, kG|kM, fMulti|fBatch)), pipe(1, 2, 10, allKinds), world(1, 2, 0, 9, kG|kM|kP, fSplit), worldO(1, 2, 0, 8, kM|kP, 0), world(1, 1, 1, 8, kG|kM|kP, 0), world(1, 2, 0, 8, allKinds, fWide), world(1, 1, 1, 7, kG|kM, fHangup), noMapOrder(job(pkgServer, "HarnessC09Slow", 16, 4)), noMapOrder(job(pkgServer, "HarnessBig", 0, 17000, 17000, 256)), noMapOrder(job(pkgServer, "HarnessBig", 0, 70000, 5000, 65536)))
			}
			return js
		},
		Bounds: func(tier string) string {
			return "pipelines of 1..3 requests, each of a solver-chosen kind (GET, SET, two-key MGET over one or two nodes, PING, unknown command, wrong arity, QUIT last) with solver-chosen key bytes/owner, every schedule of up to 6..8 events depending on the job (thorough: 7..10); a schedule may also end whenever only faults remain enabled; a second concurrent client, one of the two possibly disconnecting at any point with requests in flight (the other client's replies must be unaffected); replies of 5000 and 17000 bytes completing out of order"
		},
		Assumptions: []string{worldAssume}, Stubs: []string{stubWorld},
		Outside: []string{"longer pipelines and schedules, more than two backends/clients, reply contents other than key echoes"}})
	register(&CheckSpec{ID: "C09", Patterns: []string{pkgServer},
		Jobs: func(tier string) []*JobCfg {
			js := []*JobCfg{heavy(world(9, 2, 1, 6, kG|kM, fMulti|fBatch)), pipe(9, 2, 8, allKinds), world(9, 2, 0, 7, kG|kM, fSplit), world(9, 3, 0, 7, kG, fSplit), world(9, 3, 0, 6, kG|kM, fBatch), noMapOrder(job(pkgServer, "HarnessC09Slow", 16, 3))}
			if tier == "thorough" {
				// the quick jobs plus deeper ones (each measured to finish within minutes on 16 cores)
				js = append(js, pipe(9, 2, 10, allKinds), world(9, 2, 1, 7, kG|kM, 0), world(9, 3, 0, 7, kG|kM, fBatch), noMapOrder(job(pkgServer, "HarnessC09Slow", 16, 4)), noMapOrder(job(pkgServer, "HarnessC09Slow", 8, 3)), noMapOrder(job(pkgServer, "HarnessC09Slow", 64, 4)))
			}
			return js
		},
		Bounds: func(tier string) string {
			return "liveness reduced to a one-step progress obligation: after EVERY backend-reply event in every schedule (2..3 requests, <= 6..8 events, thorough 7..10) no completed request is left at the head of the client's queue, i.e. the longest completed prefix has been written; a slow reader: 3 (thorough 4) pipelined requests answered while the client's socket accepts nothing / 3 bytes / everything per write, writable events in between, then the client catches up (writable events for as long as the proxy asks the poller for them): every completed reply has been delivered, byte-exact"
		},
		Assumptions: []string{worldAssume, "'promptly' = within the same event-loop event; unbounded histories are covered only through this inductive step"}, Stubs: []string{stubWorld},
		Outside: []string{"real time, fairness of epoll, more than 3 outstanding requests"}})
	register(&CheckSpec{ID: "C10", Patterns: []string{pkgServer},
		Jobs: func(tier string) []*JobCfg {
			js := []*JobCfg{heavy(world(10, 3, 0, 6, kG|kS|kM, fBatch)), pipe(10, 2, 8, kG|kS|kM), pipe(10, 3, 8, kG|kS), world(10, 1, 1, 7, kG|kS, 0), worldO(10, 2, 0, 7, kM|kS, 0), noMapOrder(job(pkgServer, "HarnessC10Slow", 16, 3))}
			if tier == "thorough" {
				// the quick jobs plus deeper ones (each measured to finish within minutes on 16 cores)
				js = append(js, world(10, 2, 1, 8, kG|kS, 0), worldO(10, 2, 0, 8, kM|kS|kG, 0), world(10, 2, 0, 8, kG|kS, fSplit), world(10, 3, 0, 7, kG|kS|kM, fBatch), noMapOrder(job(pkgServer, "HarnessC10Slow", 8, 3)), noMapOrder(job(pkgServer, "HarnessC10Slow", 64, 3)))
			}
			return js
		},
		Bounds: func(tier string) string {
			return "1..2 clients, 2..3 forwarded requests (GET/SET/MGET) with solver-chosen owners, every schedule up to 6..8 events; per backend connection the order of each client's requests is compared with that client's send order; a slow node: 3 requests written while the backend socket accepts nothing / 3 bytes / everything per write and writable events drain nothing / 5 / 20 bytes in between, static outbound buffer of 16 (thorough also 8, 64) bytes: the node receives the requests byte-exact in client order"
		},
		Assumptions: []string{worldAssume, "one connection per backend node, no redirects"}, Stubs: []string{stubWorld},
		Outside: []string{"redirected requests (a MOVED/ASK re-send legitimately reorders), more than one connection per node"}})
	register(&CheckSpec{ID: "C03", Patterns: []string{pkgServer},
		Jobs: func(tier string) []*JobCfg {
			js := []*JobCfg{world(3, 1, 1, 7, kG|kM, fUnowned), world(3, 1, 1, 6, kG|kM, fHangup), world(3, 1, 1, 6, kM, fDial), world(3, 1, 1, 6, kG|kM, fBackErr), world(3, 2, 1, 5, kG|kM, fMulti|fBatch), noMapOrder(job(pkgServer, "HarnessBig", 0, 5000, 20, 256)), noMapOrder(job(pkgServer, "HarnessBig", 0, 17000, 30, 32768)), noMapOrder(job(pkgServer, "HarnessBig", 2, 9000, 20, 256)), noMapOrder(job(pkgServer, "HarnessBig", 2, 9000, 5000, 256)), job(pkgServer, "HarnessC17RspSize", 4, 5, 20), job(pkgServer, "HarnessC17RspSize", 12, 5, 40)}
			if tier == "thorough" {
				// the quick jobs plus deeper ones (each measured to finish within minutes on 16 cores)
				js = append(js, heavy(world(3, 2, 1, 6, kG|kM, fMulti|fBatch)), world(3, 1, 1, 7, kG|kM, fHangup), world(3, 1, 1, 7, kM, fDial), world(3, 1, 1, 7, kG|kM, fLoss), world(3, 1, 1, 7, kG|kM, fTimeout), worldO(3, 1, 1, 7, kM, fUnowned), world(3, 1, 1, 7, kG|kM, fRemove), world(3, 1, 1, 8, kG, fHangup|fLate), noMapOrder(job(pkgServer, "HarnessBig", 2, 70000, 5000, 65536)), noMapOrder(job(pkgServer, "HarnessBig", 2, 17000, 17000, 32768)), noMapOrder(job(pkgServer, "HarnessBig", 0, 17000, 17000, 256)), noMapOrder(job(pkgServer, "HarnessBig", 0, 70000, 5000, 65536)))
			}
			return js
		},
		Bounds: func(tier string) string {
			return "two clients with 1..2 requests each (GET / two-key MGET, solver-chosen owners and key bytes), every schedule up to 6..7 events (thorough 7..8), with one of: node B's slots unowned, a client disconnecting mid-flight, dialling node B failing, backend error replies, several replies per read; thorough adds backend loss, timeouts, node removal and a late client on a reused descriptor number; a slow client's 9000-byte reply backlogged while another client is served on recycled request objects; an oversized reply with another client's request in flight behind it"
		},
		Assumptions: []string{worldAssume, "sync.Pool modelled as LIFO (the behaviour of a single goroutine between GCs), so a recycled request object is reused by the very next request"}, Stubs: []string{stubWorld},
		Outside: []string{"more clients/requests, sync.Pool handing out older objects"}})
	register(&CheckSpec{ID: "C15", Patterns: []string{pkgServer},
		Jobs: func(tier string) []*JobCfg {
			js := []*JobCfg{world(15, 2, 0, 6, kG|kM, fLoss), world(15, 1, 0, 6, kG, fLoss|fProbe), world(15, 2, 0, 6, kG|kM, fDial), job(pkgServer, "HarnessC13", 0, 1), world(15, 2, 0, 5, kG|kM, fRemove), world(15, 2, 0, 6, kG, fLoss|fBatch), world(15, 2, 0, 6, kG|kM, fQuiet), world(15, 1, 1, 8, kG, fLoss|fHangup|fLate), noMapOrder(job(pkgServer, "HarnessC15Reuse", 0)), noMapOrder(job(pkgServer, "HarnessC15Reuse", 1))}
			if tier == "thorough" {
				// the quick jobs plus deeper ones (each measured to finish within minutes on 16 cores)
				js = append(js, world(15, 2, 0, 7, kG|kM, fLoss), world(15, 2, 0, 7, kG|kM, fLoss|fProbe), world(15, 1, 1, 7, kG|kM, fLoss), world(15, 2, 0, 7, kG|kM, fDial), job(pkgServer, "HarnessC13", 1, 1), job(pkgServer, "HarnessC13", 0, 2), world(15, 2, 0, 7, kG|kM, fRemove), world(15, 2, 0, 7, kG|kM, fQuiet), world(15, 1, 1, 7, kG, fQuiet|fHangup|fLate))
			}
			return js
		},
		Bounds: func(tier string) string {
			return "pipelines of 2 requests (GET / two-key MGET), a backend connection lost at ANY point of every schedule up to 5..8 events (before the request is written, after it, after other replies; noticed by reading EOF or only by the next write failing), or node B removed from the topology by the ticker (slots unowned or taken over), or dialling a node failing, or a redirect naming an unknown node; a client that disconnects with a request in flight and another that connects afterwards (and gets the freed descriptor number) before the backend is lost; at quiescence every request is answered or its client closed"
		},
		Assumptions: []string{worldAssume, "'lost' = the backend closes its end and the proxy reads EOF"}, Stubs: []string{stubWorld},
		Outside: []string{"loss in the middle of a reply's bytes, node removal by the topology ticker, write errors other than EOF"}})
	register(&CheckSpec{ID: "C16", Patterns: []string{pkgServer},
		Jobs: func(tier string) []*JobCfg {
			js := []*JobCfg{world(16, 2, 0, 7, kG|kM, fTimeout), world(16, 3, 0, 6, kG, fTimeout), world(16, 2, 0, 6, kG, fTimeout|fBatch), world(16, 1, 1, 6, kG, fTimeout), noMapOrder(job(pkgServer, "HarnessC16Seq", 5))}
			if tier == "thorough" {
				// the quick jobs plus deeper ones (each measured to finish within minutes on 16 cores)
				js = append(js, world(16, 2, 0, 8, kG|kM, fTimeout), world(16, 3, 0, 7, kG, fTimeout), world(16, 1, 1, 7, kG|kM, fTimeout), world(16, 2, 0, 7, kG|kM, fTimeout|fSplit), noMapOrder(job(pkgServer, "HarnessC16Seq", 7)))
			}
			return js
		},
		Bounds: func(tier string) string {
			return "pipelines of 2..3 requests (GET / two-key MGET), timeout 50 ms of model time, time passes beyond the timeout at ANY single point of every schedule up to 6..7 events (thorough 7..8), backends may answer before, after or never; at quiescence every request has exactly one reply, in order, the connection is open; sequences of 5 (thorough 7) requests on one connection, each answered in time or timed out with its late reply arriving at once or with the next reply (several timeouts per run, request objects recycled)"
		},
		Assumptions: []string{worldAssume, "model clock: each clock reading advances 1 microsecond, 'time passes' advances 70 ms; the timeout sweep runs after every event as at the end of every poller iteration"}, Stubs: []string{stubWorld},
		Outside: []string{"real time, the 200 ms epoll cadence, several separate timeouts within one pipeline"}})
	register(&CheckSpec{ID: "C13", Patterns: []string{pkgServer},
		Jobs: func(tier string) []*JobCfg {
			js := []*JobCfg{job(pkgServer, "HarnessC13", 0, 1), job(pkgServer, "HarnessC13", 1, 1), job(pkgServer, "HarnessC13", 0, 2), job(pkgServer, "HarnessC13", 1, 2),
				noMapOrder(job(pkgServer, "HarnessC13Seq", 8, 1)), noMapOrder(job(pkgServer, "HarnessC13Seq", 4, 2)), noMapOrder(job(pkgServer, "HarnessC13Wide", 7))}
			if tier == "thorough" {
				js = append(js, noMapOrder(job(pkgServer, "HarnessC13Seq", 12, 1)), noMapOrder(job(pkgServer, "HarnessC13Seq", 6, 2)), noMapOrder(job(pkgServer, "HarnessC13Wide", 10)), sites(job(pkgServer, "HarnessC13Wide", 4), "OnCReact"))
			}
			return js
		},
		Bounds: func(tier string) string {
			return "one redirect step: solver-chosen kind (MOVED/ASK), known or unknown target, single-key request or fragment of a split MGET, first or second position in a two-request pipeline, other node answering before or after; one or two connections per backend node; sequences of 8 (thorough 12) requests on one connection each redirected once, and of 4 (thorough 6) requests each redirected twice (B -> C -> A), every redirect MOVED or ASK by the solver's choice, request objects recycled from one request to the next; one MGET over 7 (thorough 10) slots with EVERY fragment redirected (MOVED or ASK per fragment)"
		},
		Assumptions: []string{"termination is claimed per redirect step (the proxy has no hop limit)"}, Stubs: []string{stubWorld},
		Outside: []string{"chains of more than two redirects, redirects arriving while the target connection is being dialled unsuccessfully"}})
	register(&CheckSpec{ID: "C04", Patterns: []string{pkgServer},
		Jobs: func(tier string) []*JobCfg {
			js := []*JobCfg{job(pkgServer, "HarnessC04", 1, 0, 0), job(pkgServer, "HarnessC04", 0, 0, 1), job(pkgServer, "HarnessC04", 1, 1, 0),
				noMapOrder(job(pkgServer, "HarnessC04Seq", 2, 0)), noMapOrder(job(pkgServer, "HarnessC04Seq", 2, 1)),
				noMapOrder(job(pkgServer, "HarnessC04Topo", 1, 0, 6, 0, 0)), noMapOrder(job(pkgServer, "HarnessC04TopoConns", 1, 4, 2))}
			if tier == "thorough" {
				js = append(js, noMapOrder(job(pkgServer, "HarnessC04Topo", 2, 0, 3, 0, 2)), noMapOrder(job(pkgServer, "HarnessC04Topo", 1, 1, 6, 1, 0)), noMapOrder(job(pkgServer, "HarnessC04Topo", 1, 0, 6, 0, 1)), noMapOrder(job(pkgServer, "HarnessC04TopoConns", 1, 6, 3)))
				js = append(js, job(pkgServer, "HarnessC04", 2, 0, 1), job(pkgServer, "HarnessC04", 2, 1, 1), job(pkgServer, "HarnessC04", 0, 0, 0), noMapOrder(job(pkgServer, "HarnessC04Seq", 3, 0)))
			}
			return js
		},
		Bounds: func(tier string) string {
			return "every forwarded single-key command of the documented table, key = 2 arbitrary bytes (slot = real CRC16 of arbitrary data), three replica sets over [0,99] [200,8191] [8192,16383] with an unowned gap, 0..2 replicas each, replica reads on/off, backend password on/off; sequences of 2 (thorough 3) requests of {get,set,hscan,eval} with arbitrary one-byte hash tags against replica sets with 0, 1 and 2 replicas (state carried from one routing decision to the next)"
		},
		Assumptions: []string{"read-only command list taken from the Redis command reference; scans and scripts must go to the master"}, Stubs: []string{stubWorld, "math/rand.Intn = arbitrary value in range"},
		Outside: []string{"other range layouts, more than three replica sets, multi-key commands (their fragments are routed by the same code per slot)"}})
	register(&CheckSpec{ID: "C20", Patterns: []string{pkgServer}, GoalsMust: true,
		Jobs: func(tier string) []*JobCfg {
			probe := func(j *JobCfg) *JobCfg {
				j.Redirect = map[string]string{"rcproxy/core/pkg/redis.Dial": "rcproxy/core.VerifProbeDial"}
				j.MapOrderOff = true
				return j
			}
			js := []*JobCfg{noMapOrder(job(pkgServer, "HarnessC20Run", 2, 0, 4)), noMapOrder(job(pkgServer, "HarnessC20Run", 2, 1, 3)), noMapOrder(job(pkgServer, "HarnessC20Run", 2, 2, 3)), noMapOrder(job(pkgServer, "HarnessC20Run", 1, 0, 3)),
				probe(job(pkgServer, "HarnessC20Monitor", 0)), probe(job(pkgServer, "HarnessC20Monitor", 1))}
			if tier == "thorough" {
				js = append(js, noMapOrder(job(pkgServer, "HarnessC20Run", 2, 0, 6)), noMapOrder(job(pkgServer, "HarnessC20Run", 2, 1, 5)))
			}
			return js
		},
		Bounds: func(tier string) string {
			return "a master X with 1..2 replicas in every ban configuration and a second master Y: runs of 3..4 (thorough 5..6) reads in EVERY interleaving of reads for X and for Y; for every pattern with at least as many reads for X as X has healthy replicas and for every healthy replica the solver must find values of the random source for which that replica serves a read of the run (cover goal); writes always go to the master. Ban state over a history: a replica is probed healthy, becomes unreachable (noticed by a failing connect on the request path, or by two failing health probes) and is banned, comes back, 100 ms or 2 min pass, the next health probe succeeds: reads must be able to reach it again (cover goal)"
		},
		Assumptions: []string{"a uniform random source reaches every value; the claim is reachability of every healthy replica within a run, not a distribution", "the health monitor goroutine is run tick by tick (time.NewTicker pre-loaded by the harness, probe outcome = harness table in place of redis.Dial + PING); every loop iteration starts from the same state, so running the body again continues a monitor that was left parked"}, Stubs: []string{stubWorld, "math/rand.Intn = arbitrary value in range", "time.NewTicker = channel pre-loaded with the ticks the harness asks for", "redis.Dial inside Pool.detect = harness probe table (job-level redirect)"},
		Outside: []string{"statistical quality of math/rand, the real 5 s cadence and the 5 s retry sleep of the monitor, concurrent access of the ban fields by the monitor goroutine and the event loop"}})
	register(&CheckSpec{ID: "C07", Patterns: []string{pkgServer},
		Jobs: func(tier string) []*JobCfg {
			js := []*JobCfg{job(pkgServer, "HarnessC07", 0, 2, 0), job(pkgServer, "HarnessC07", 1, 2, 0), job(pkgServer, "HarnessC07", 2, 2, 0), job(pkgServer, "HarnessC07", 1, 3, 0), job(pkgServer, "HarnessC07", 0, 3, 2),
				job(pkgServer, "HarnessC07", 0, 2, 3), job(pkgServer, "HarnessC07", 1, 2, 3), job(pkgServer, "HarnessC07", 2, 2, 3)}
			if tier == "thorough" {
				js = append(js, job(pkgServer, "HarnessC07", 0, 3, 0), job(pkgServer, "HarnessC07", 2, 3, 0), job(pkgServer, "HarnessC07", 0, 4, 2), job(pkgServer, "HarnessC07", 0, 3, 3))
			}
			for _, j := range js {
				j.MapOrderSites = []string{"OnCReact", "SRespCodec).MSet"}
			}
			return js
		},
		Bounds: func(tier string) string {
			return "MGET/DEL/MSET with 2..3 keys on solver-chosen nodes (duplicates included), every value null / empty / 1..2 arbitrary bytes, DEL counts arbitrary, both arrival orders of the fragment replies, each reply in one or two reads; the request itself arriving in two reads cut at EVERY position (2, thorough 3 keys)"
		},
		Assumptions: []string{"backend contract: a fragment's MGET reply has one element per key sent and equal elements for equal keys; DEL replies are single digits"}, Stubs: []string{stubWorld},
		Outside: []string{"more than 3 keys / 2 nodes, counts >= 10"}})
	register(&CheckSpec{ID: "C11", Patterns: []string{pkgServer},
		Jobs: func(tier string) []*JobCfg {
			js := []*JobCfg{job(pkgServer, "HarnessC11Single"), job(pkgServer, "HarnessC07", 1, 2, 1), job(pkgServer, "HarnessC07", 2, 2, 1), job(pkgServer, "HarnessC11Seq", 12, 0), job(pkgServer, "HarnessC11Seq", 40, 1)}
			if tier == "thorough" {
				js = append(js, job(pkgServer, "HarnessC07", 0, 2, 1), job(pkgServer, "HarnessC07", 1, 3, 1), job(pkgServer, "HarnessC11Seq", 40, 0), instrs(job(pkgServer, "HarnessC11Seq", 300, 1), 40_000_000))
			} else {
				js = append(js, job(pkgServer, "HarnessC07", 0, 1, 1))
			}
			for _, j := range js {
				j.MapOrderSites = []string{"OnCReact"}
			}
			return js
		},
		Bounds: func(tier string) string {
			return "error replies '-' + EVERY 8 printable bytes (so -LOADING, -WRONGTYP, -TRYAGAIN, -READONLY, -CROSSSLO, -CLUSTERD, -ERR ... are included) other than the ones the proxy acts on, on any subset of the fragments of a 1..3-key MGET/DEL/MSET in both arrival orders and split reads; single-key GET answered with such an error; 12 (thorough 40) requests in a row all answered with the same arbitrary error, and 40 (thorough 300) requests each answered with an error of a different kind, then a normal reply"
		},
		Assumptions: []string{"the first 8 bytes of the error line are arbitrary printable bytes, the rest is fixed"}, Stubs: []string{stubWorld},
		Outside: []string{"replies of the wrong shape that a Redis node cannot produce (e.g. a status reply to MGET)"}})
	register(&CheckSpec{ID: "C08", Patterns: []string{pkgCore},
		Jobs: func(tier string) []*JobCfg {
			pairs := [][2]int64{{0, 1}, {4, 2}, {2, 5}, {3, 6}}
			if tier == "thorough" {
				pairs = append(pairs, [2]int64{1, 7}, [2]int64{6, 4}, [2]int64{4, 4}, [2]int64{5, 3})
			}
			var js []*JobCfg
			for _, p := range pairs {
				js = append(js, sites(withSumHash(job(pkgCore, "HarnessC08", p[0], p[1], -1, 0)), "CRespCodec).MGet"))
			}
			js = append(js, sites(job(pkgCore, "HarnessC08", 0, 2, -1, 0), "CRespCodec).MGet"))
			// the proxy has a past: an earlier client (same descriptor number / still connected) or a backend
			// reply was cut inside a bulk argument
			hist := [][3]int64{{0, 1, 1}, {1, 0, 2}, {0, 1, 3}}
			if tier == "thorough" {
				hist = append(hist, [3]int64{4, 2, 1}, [3]int64{2, 5, 2}, [3]int64{1, 0, 3}, [3]int64{1, 0, 1}, [3]int64{0, 1, 2})
			}
			for _, h := range hist {
				js = append(js, sites(withSumHash(job(pkgCore, "HarnessC08Hist", h[0], h[1], -1, 0, h[2])), "CRespCodec).MGet"))
			}
			if tier == "thorough" {
				js = append(js, sites(withSumHash(job(pkgCore, "HarnessC08", 0, 1, -1, -1)), "CRespCodec).MGet"), sites(withSumHash(job(pkgCore, "HarnessC08", 4, 2, -1, -1)), "CRespCodec).MGet"))
			}
			return js
		},
		Bounds: func(tier string) string {
			return "streams of two pipelined requests of 8 shapes (GET/SET/MGET/DEL/PING/arbitrary 3-byte command name, arbitrary binary key and value bytes incl. CR/LF, empty arguments), EVERY two-way cut position (thorough: every three-way cut for two shape pairs); differential against the same real code on the uncut stream; the same with a past: an earlier client that sent a request cut inside a bulk argument and disconnected (descriptor number reused) or is still connected, or a backend reply cut inside a bulk value"
		},
		Assumptions: []string{"well-formed streams are generated constructively (canonical lengths); in jobs marked H=spec hashkit.Hash is replaced by its specification (C05)"}, Stubs: []string{stubWorld},
		Outside: []string{"requests larger than the 1 KiB inbound ring (growth is C19), more than two requests per stream"}})
	register(&CheckSpec{ID: "C02", Patterns: []string{pkgServer, pkgCore},
		Jobs: func(tier string) []*JobCfg {
			var js []*JobCfg
			for n := int64(1); n <= 4; n++ {
				js = append(js, withSumHash(job(pkgCore, "HarnessC02Req", n, 2)))
			}
			js = append(js, job(pkgCore, "HarnessC02Req", 1, 3), withSumHash(job(pkgCore, "HarnessC02Req", 2, 0)))
			for shape := int64(0); shape <= 9; shape++ {
				js = append(js, job(pkgServer, "HarnessC02Rsp", shape, 0, 0))
			}
			js = append(js, job(pkgServer, "HarnessC02Rsp", 3, 1, 0), job(pkgServer, "HarnessC02Rsp", 7, 2, 0), job(pkgServer, "HarnessC02Rsp", 8, 0, 3), job(pkgServer, "HarnessC02Rsp", 3, 0, 1))
			js = append(js, job(pkgServer, "HarnessC02Slow", 4), job(pkgServer, "HarnessC02Slow", 8))
			if tier == "thorough" {
				js = append(js, noMapOrder(job(pkgServer, "HarnessBig", 0, 5000, 20, 256)), noMapOrder(job(pkgServer, "HarnessBig", 0, 17000, 30, 32768)), noMapOrder(job(pkgServer, "HarnessBig", 0, 17000, 17000, 256)), noMapOrder(job(pkgServer, "HarnessBig", 0, 70000, 5000, 65536)), noMapOrder(job(pkgServer, "HarnessBig", 1, 9000, 0, 256)), noMapOrder(job(pkgServer, "HarnessBig", 1, 17000, 0, 32768)), noMapOrder(job(pkgServer, "HarnessBig", 1, 70000, 0, 65536)))
			} else {
				js = append(js, noMapOrder(job(pkgServer, "HarnessBig", 0, 5000, 20, 256)), noMapOrder(job(pkgServer, "HarnessBig", 0, 17000, 30, 32768)), noMapOrder(job(pkgServer, "HarnessBig", 1, 9000, 0, 256)), noMapOrder(job(pkgServer, "HarnessBig", 2, 9000, 20, 256)))
			}
			if tier == "thorough" {
				for shape := int64(0); shape <= 9; shape++ {
					js = append(js, job(pkgServer, "HarnessC02Rsp", shape, 1, 2))
				}
				js = append(js, withSumHash(job(pkgCore, "HarnessC02Req", 5, 1)), withSumHash(job(pkgCore, "HarnessC02Req", 3, 3)))
			}
			return js
		},
		Bounds: func(tier string) string {
			return "requests: every single-key command of the table whose arity admits 1..4 (thorough 5) arguments, any letter case, every argument 0..3 arbitrary bytes; replies: 10 RESP2 shapes (status, error, integer, bulk, null, empty, empty array, mixed array, nested array, empty status) with arbitrary content bytes, every two-way cut of handshake+reply, 0..2 handshake replies, slow reader accepting 1..3 bytes then 2 at a time"
		},
		Assumptions: []string{"short writes exist only in the socket model (a native run cannot force them); counterexamples that need them are reported as model-level"}, Stubs: []string{stubWorld},
		Outside: []string{"multi-megabyte values, nesting deeper than 2, the redirect and authentication errors the proxy itself acts on"}})
	register(&CheckSpec{ID: "C19", Patterns: []string{pkgRing, pkgList, pkgElastic, pkgServer, pkgCore},
		Jobs: func(tier string) []*JobCfg {
			var js []*JobCfg
			sizes := []int64{0, 2, 4}
			if tier == "thorough" {
				sizes = []int64{0, 2, 4, 8}
			}
			for _, sz := range sizes {
				for op := int64(0); op <= 6; op++ {
					ns := []int64{0, 1, 3, sz + 2}
					if op >= 4 {
						ns = []int64{0}
					}
					for _, n := range ns {
						js = append(js, job(pkgRing, "HarnessC19Ring", sz, op, n))
					}
				}
			}
			js = append(js, job(pkgRing, "HarnessC19Ring", 4, 2, -1), job(pkgRing, "HarnessC19Ring", 4, 1, -1))
			// capacities above the 4 KiB growth threshold are not powers of two (4096 -> 5120 -> 6400 -> 8000)
			bigSizes := []int64{5120}
			if tier == "thorough" {
				bigSizes = []int64{5120, 6400, 8000}
			}
			for _, sz := range bigSizes {
				for op := int64(0); op <= 3; op++ {
					for _, n := range []int64{1, 1024, 4097} {
						js = append(js, job(pkgRing, "HarnessC19Ring", sz, op, n))
					}
				}
				js = append(js, job(pkgRing, "HarnessC19Ring", sz, 5, 0), job(pkgRing, "HarnessC19Ring", sz, 4, 0))
			}
			js = append(js, job(pkgRing, "HarnessC19Grow", 4096, 100, 4000, 200), job(pkgRing, "HarnessC19Grow", 4096, 0, 4096, 1), job(pkgRing, "HarnessC19Grow", 1024, 1000, 600, 5000), job(pkgRing, "HarnessC19Grow", 8192, 8000, 500, 3000))
			for k := int64(0); k <= 2; k++ {
				for op := int64(0); op <= 6; op++ {
					for _, n := range []int64{0, 1, 2, 4, 7} {
						if op == 4 && n > 0 {
							continue
						}
						js = append(js, job(pkgList, "HarnessC19List", k, op, n))
					}
				}
			}
			// the users: partial writes to a slow peer and the ordered drain of the backlog (conn.write/writev,
			// eventloop.write) in both directions
			js = append(js, noMapOrder(job(pkgServer, "HarnessC02Slow", 4)), noMapOrder(job(pkgServer, "HarnessBig", 1, 9000, 0, 256)))
			// buffers of a connection that was torn down with bytes still in them must not reach the next connection
			js = append(js, withSumHash(job(pkgCore, "HarnessC08Hist", 0, 1, -1, 0, 1)), withSumHash(job(pkgCore, "HarnessC08Hist", 0, 1, -1, 0, 3)))
			if tier == "thorough" {
				js = append(js, noMapOrder(job(pkgServer, "HarnessC02Slow", 8)), noMapOrder(job(pkgServer, "HarnessC10Slow", 16, 3)), noMapOrder(job(pkgServer, "HarnessBig", 1, 17000, 0, 32768)), noMapOrder(job(pkgServer, "HarnessBig", 1, 70000, 0, 65536)))
			}
			rs := []int64{0, 4}
			if tier == "thorough" {
				rs = []int64{0, 2, 4, 8}
			}
			defer func() {
				for _, j := range js {
					j.Witnesses = 2
				}
			}()
			for _, r := range rs {
				for k := int64(0); k <= 1; k++ {
					for _, ms := range []int64{2, 4, 8} {
						for op := int64(0); op <= 5; op++ {
							for _, n := range []int64{0, 1, 3, 6} {
								if op == 5 && n > 0 {
									continue
								}
								js = append(js, job(pkgElastic, "HarnessC19Elastic", r, k, ms, op, n))
							}
						}
					}
				}
			}
			return js
		},
		Bounds: func(tier string) string {
			return "ONE operation from ANY valid state (inductive step): ring of 0/2/4(/8) bytes in every read/write position, empty or not, arbitrary contents, operation sizes 0..size+2 (growth included) and negative; list of 0..2 nodes of 1..3 bytes; composite of ring + list with static limit 2/4/8; real grow() across the 4 KiB threshold at four concrete geometries; rings of 5120 (thorough: 6400, 8000) bytes - the capacities growth produces above 4 KiB, which are not powers of two - with read/write positions at the edges, around 1 KiB and around 4 KiB, operation sizes 1 / 1024 / 4097; end to end: two replies to a client whose socket accepts a solver-chosen 0..3 / 0..6 / 0..2 bytes and then 3 at a time (static outbound buffer of 4 bytes, thorough 8), a 9000-byte reply to a slow reader drained in 4 KiB steps (thorough: 17000 and 70000 bytes; requests to a slow node)"
		},
		Assumptions: []string{"representation invariants stated in the harness (ring: positions in range, len(buf)==size, empty implies r==w; list: size/bytes/tail consistent, no empty node); because each step re-establishes them, histories of any length over these sizes are covered"},
		Stubs:       []string{"byteslice pool = LIFO per size class with stale contents"},
		Outside:     []string{"contents of rings larger than 8 bytes (only grow() is run at 1-8 KiB), ReadFrom/WriteTo/CopyFromSocket (unused by the proxy)"}})
	register(&CheckSpec{ID: "C14", Patterns: []string{pkgCore}, AllowBlocked: true,
		Jobs: func(tier string) []*JobCfg {
			js := []*JobCfg{noMapOrder(job(pkgCore, "HarnessC14Loop")), noMapOrder(job(pkgCore, "HarnessC14Parse")), noMapOrder(job(pkgCore, "HarnessC14Ticker")), noMapOrder(job(pkgCore, "HarnessC14History", 5, 3)), noMapOrder(job(pkgCore, "HarnessC14Bunched", 3, 3)), noMapOrder(job(pkgCore, "HarnessC14HistoryInfo", 3, 3))}
			if tier == "thorough" {
				js = append(js, noMapOrder(job(pkgCore, "HarnessC14History", 5, 4)), noMapOrder(job(pkgCore, "HarnessC14History", 6, 3)), noMapOrder(job(pkgCore, "HarnessC14Bunched", 4, 4)), noMapOrder(job(pkgCore, "HarnessC14HistoryInfo", 4, 3)), noMapOrder(job(pkgCore, "HarnessC14History", 4, 6)))
			}
			return js
		},
		Bounds: func(tier string) string {
			return "(a) refresh loop: one unusable probe reply of 6 classes (status, nil, error with arbitrary code, too few nodes, arbitrary 4-byte text, arbitrary 2-byte status) followed by a valid one; (b) node filter: role x every subset/placement of {myself, fail?, fail, handshake, noaddr} x link state x INFO loading/master_link answers; (c) slot table rebuild with the last range end in {16383, 16000, 16384, 20000, 5460} and an arbitrary probe slot; (d) every history of 5 (thorough 6) successive valid replies chosen among steady state / fail-over / fail-back as replica / resharding, with a ticker run after each: table, replica sets and pools describe the latest reply; (e) histories of 3 (thorough 4) replies that may bunch up (the ticker runs or does not run between two replies, solver's choice), after which the cluster is stable (the last description is repeated, the ticker runs): the table describes the last one; (f) histories of 3 (thorough 4) replies in which, at each reply, one of the two nodes that change role may report loading:1 to INFO: as a NEWLY DISCOVERED replica it is left out, a node already in force is not probed again"
		},
		Assumptions: []string{"INFO answers come from a fake RedisWrapper; cornelk/hashmap is modelled as an ideal map; the refresh goroutine body is run to its next blocking receive", "map iteration order not explored here"},
		Stubs:       []string{stubWorld, "hashmap.HashMap = ideal map", "context.WithCancel = no-op"},
		Outside:     []string{"the unsynchronised sharing of ClusterNodes between the refresh goroutine and the event loop, real INFO dialling, 'within a few seconds', change detection over arbitrary histories"}})
	register(&CheckSpec{ID: "C18", Patterns: []string{pkgServer, pkgAuthip},
		Jobs: func(tier string) []*JobCfg {
			js := []*JobCfg{noMapOrder(job(pkgAuthip, "HarnessC18", 1, 0)), noMapOrder(job(pkgAuthip, "HarnessC18", 2, 0)), noMapOrder(job(pkgAuthip, "HarnessC18", 1, 1)),
				noMapOrder(job(pkgAuthip, "HarnessC18", 2, 2)), noMapOrder(job(pkgAuthip, "HarnessC18", 2, 1)), noMapOrder(job(pkgServer, "HarnessC18Admit")), noMapOrder(job(pkgAuthip, "HarnessC18", 3, 0))}
			if tier == "thorough" {
				js = append(js, noMapOrder(job(pkgAuthip, "HarnessC18", 4, 0)), noMapOrder(job(pkgAuthip, "HarnessC18", 3, 3)), noMapOrder(job(pkgAuthip, "HarnessC18", 3, 2)))
			}
			return js
		},
		Bounds: func(tier string) string {
			return "every history of 1..3 (thorough 4) rewrites of the whitelist file over {enable on/off} x {every subset of 3 addresses}, one rewrite of each history optionally written as three lines each empty or any of the addresses (duplicate lines), then admission of each address; connection admission for 4 source addresses with the real OnCOpened/closeConn"
		},
		Assumptions: []string{"the file watcher is replaced by calling parseAuthIp directly; yaml.Unmarshal reads the canonical documents the harness writes; cornelk/hashmap is modelled as an ideal map"},
		Stubs:       []string{stubWorld, "hashmap.HashMap = ideal map", "yaml.Unmarshal = reader of canonical documents", "ioutil.ReadFile = in-memory file table"},
		Outside:     []string{"fsnotify delivery and latency, YAML syntax variety, IPv6 address text, the concurrent read of the map by the event loop during a reload"}})
}

func init() {
	register(&CheckSpec{ID: "SMOKE", Patterns: []string{pkgServer},
		Jobs: func(tier string) []*JobCfg { return []*JobCfg{job(pkgServer, "HarnessSmoke")} }})
}
