package main

import "fmt"

// Per-property job lists. A bound is registered here only after it ran clean on the unchanged tree.

func job(pkg, fn string, params ...int64) *JobCfg {
	name := fn
	if len(params) > 0 {
		name = fmt.Sprintf("%s%v", fn, params)
	}
	return &JobCfg{Name: name, Pkg: pkg, Func: fn, Params: params}
}

const (
	pkgHashkit = "rcproxy/core/pkg/hashkit"
	pkgCore    = "rcproxy/core"
	pkgServer  = "rcproxy/core/server"
	pkgCodec   = "rcproxy/core/codec"
)

func init() {
	register(&CheckSpec{
		ID:       "C05",
		Patterns: []string{pkgHashkit},
		Jobs: func(tier string) []*JobCfg {
			maxL := 10
			if tier == "thorough" {
				maxL = 14
			}
			js := []*JobCfg{job(pkgHashkit, "HarnessC05Table"), job(pkgHashkit, "HarnessC05Step")}
			for L := 0; L <= maxL; L++ {
				js = append(js, job(pkgHashkit, "HarnessC05", int64(L)))
			}
			return js
		},
		Bounds: func(tier string) string {
			if tier == "thorough" {
				return "every key of length 0..14 bytes (all byte values, all brace arrangements); table lemma over all 256 indices; one-step CRC fold lemma over every 32-bit pre-state and byte"
			}
			return "every key of length 0..10 bytes (all byte values, all brace arrangements); table lemma over all 256 indices; one-step CRC fold lemma over every 32-bit pre-state and byte"
		},
		Assumptions: []string{"specification oracle: bitwise CRC16/XMODEM and the hash-tag rule written in the harness from the Redis Cluster specification"},
		Stubs:       []string{"strings.Index / bytealg.IndexByteString as closed-form first-match terms"},
		Outside:     []string{"placement of braces in keys longer than the bound (the CRC of longer untagged keys follows from the table and step lemmas by induction)"},
	})
}

func init() {
	register(&CheckSpec{ID: "SMOKE", Patterns: []string{pkgServer},
		Jobs: func(tier string) []*JobCfg { return []*JobCfg{job(pkgServer, "HarnessSmoke")} }})
}
