package main

// Hash-consed bit-vector / Bool term DAG with constant folding, evaluator and SMT-LIB2 printer.
// One TF (term factory) per worker; terms never cross workers.

import (
	"fmt"
	"math/bits"
	"strings"
)

type Op uint8

const (
	OConst Op = iota
	OVar
	ONot
	OAnd
	OIte
	OZext
	OSext
	OExtract // low W bits (aux = hi bit)
	OBit     // single bit aux -> Bool
	OEq
	OUlt
	OUle
	OSlt
	OSle
	OAdd
	OSub
	OMul
	OBAnd
	OBOr
	OBXor
	OShl
	OLshr
	OAshr
	OUdiv
	OUrem
	OSdiv
	OSrem
)

var opName = map[Op]string{ONot: "not", OAnd: "and", OIte: "ite", OEq: "=", OUlt: "bvult", OUle: "bvule", OSlt: "bvslt", OSle: "bvsle",
	OAdd: "bvadd", OSub: "bvsub", OMul: "bvmul", OBAnd: "bvand", OBOr: "bvor", OBXor: "bvxor", OShl: "bvshl", OLshr: "bvlshr", OAshr: "bvashr",
	OUdiv: "bvudiv", OUrem: "bvurem", OSdiv: "bvsdiv", OSrem: "bvsrem"}

// Term: W>0 bit-vector of width W; W==0 Bool.
type Term struct {
	id   int32
	Op   Op
	W    int16
	Aux  int32
	C    uint64
	A    [3]*Term
	Name string
}

type tkey struct {
	op         Op
	w          int16
	aux        int32
	c          uint64
	a0, a1, a2 int32
	name       string
}

type TF struct {
	tab   map[tkey]*Term
	list  []*Term
	tt    *Term
	ff    *Term
	nvars int
}

func NewTF() *TF {
	f := &TF{tab: map[tkey]*Term{}}
	f.tt = f.mk(OConst, 0, 0, 1, "")
	f.ff = f.mk(OConst, 0, 0, 0, "")
	return f
}

func aid(t *Term) int32 {
	if t == nil {
		return -1
	}
	return t.id
}

func (f *TF) mk(op Op, w int, aux int32, c uint64, name string, args ...*Term) *Term {
	k := tkey{op: op, w: int16(w), aux: aux, c: c, name: name, a0: -1, a1: -1, a2: -1}
	var a [3]*Term
	for i, x := range args {
		a[i] = x
	}
	k.a0, k.a1, k.a2 = aid(a[0]), aid(a[1]), aid(a[2])
	if t, ok := f.tab[k]; ok {
		return t
	}
	t := &Term{id: int32(len(f.list)), Op: op, W: int16(w), Aux: aux, C: c, A: a, Name: name}
	f.tab[k] = t
	f.list = append(f.list, t)
	return t
}

func mask(w int) uint64 {
	if w >= 64 {
		return ^uint64(0)
	}
	return (uint64(1) << uint(w)) - 1
}

func sext64(v uint64, w int) int64 {
	if w >= 64 || w == 0 {
		return int64(v)
	}
	sh := uint(64 - w)
	return int64(v<<sh) >> sh
}

func (f *TF) Const(w int, v uint64) *Term {
	if w == 0 {
		return f.Bool(v != 0)
	}
	return f.mk(OConst, w, 0, v&mask(w), "")
}
func (f *TF) Bool(b bool) *Term {
	if b {
		return f.tt
	}
	return f.ff
}
func (f *TF) Var(name string, w int) *Term { return f.mk(OVar, w, 0, 0, name) }

func (t *Term) IsConst() bool { return t.Op == OConst }
func (t *Term) True() bool    { return t.Op == OConst && t.W == 0 && t.C == 1 }
func (t *Term) False() bool   { return t.Op == OConst && t.W == 0 && t.C == 0 }
func (t *Term) S64() int64    { return sext64(t.C, int(t.W)) }

func foldBin(op Op, w int, x, y uint64) uint64 {
	m := mask(w)
	switch op {
	case OAdd:
		return (x + y) & m
	case OSub:
		return (x - y) & m
	case OMul:
		return (x * y) & m
	case OBAnd:
		return x & y
	case OBOr:
		return x | y
	case OBXor:
		return x ^ y
	case OShl:
		if y >= uint64(w) {
			return 0
		}
		return (x << y) & m
	case OLshr:
		if y >= uint64(w) {
			return 0
		}
		return x >> y
	case OAshr:
		sx := sext64(x, w)
		if y >= uint64(w) {
			if sx < 0 {
				return m
			}
			return 0
		}
		return uint64(sx>>y) & m
	case OUdiv:
		if y == 0 {
			return m
		}
		return x / y
	case OUrem:
		if y == 0 {
			return x
		}
		return x % y
	case OSdiv:
		sx, sy := sext64(x, w), sext64(y, w)
		if sy == 0 {
			if sx < 0 {
				return 1
			}
			return m
		}
		if sy == -1 {
			return uint64(-sx) & m
		}
		return uint64(sx/sy) & m
	case OSrem:
		sx, sy := sext64(x, w), sext64(y, w)
		if sy == 0 {
			return x
		}
		if sy == -1 {
			return 0
		}
		return uint64(sx%sy) & m
	}
	panic("foldBin")
}

func (f *TF) Bin(op Op, a, b *Term) *Term {
	w := int(a.W)
	if a.W != b.W {
		panic(fmt.Sprintf("Bin width mismatch %s %d %d", opName[op], a.W, b.W))
	}
	if a.IsConst() && b.IsConst() {
		return f.Const(w, foldBin(op, w, a.C, b.C))
	}
	switch op {
	case OAdd, OBOr, OBXor:
		if a.IsConst() && a.C == 0 {
			return b
		}
		if b.IsConst() && b.C == 0 {
			return a
		}
		if op == OBXor && a == b {
			return f.Const(w, 0)
		}
		if op == OBOr && a == b {
			return a
		}
	case OSub:
		if b.IsConst() && b.C == 0 {
			return a
		}
		if a == b {
			return f.Const(w, 0)
		}
	case OShl, OLshr, OAshr:
		if b.IsConst() && b.C == 0 {
			return a
		}
		if a.IsConst() && a.C == 0 {
			return a
		}
		if b.IsConst() && b.C >= uint64(w) && op != OAshr {
			return f.Const(w, 0)
		}
	case OBAnd:
		if (a.IsConst() && a.C == 0) || (b.IsConst() && b.C == 0) {
			return f.Const(w, 0)
		}
		if a.IsConst() && a.C == mask(w) {
			return b
		}
		if b.IsConst() && b.C == mask(w) {
			return a
		}
		if a == b {
			return a
		}
	case OMul:
		if (a.IsConst() && a.C == 0) || (b.IsConst() && b.C == 0) {
			return f.Const(w, 0)
		}
		if a.IsConst() && a.C == 1 {
			return b
		}
		if b.IsConst() && b.C == 1 {
			return a
		}
	}
	// canonical order for commutative ops
	switch op {
	case OAdd, OMul, OBAnd, OBOr, OBXor:
		if a.id > b.id {
			a, b = b, a
		}
	}
	return f.mk(op, w, 0, 0, "", a, b)
}

// ub returns an upper bound of the unsigned value of t (cheap syntactic range analysis).
func ub(t *Term, depth int) uint64 {
	w := int(t.W)
	switch t.Op {
	case OConst:
		return t.C
	case OZext:
		return ub(t.A[0], depth)
	case OBAnd:
		if depth > 6 {
			break
		}
		x, y := ub(t.A[0], depth+1), ub(t.A[1], depth+1)
		if x < y {
			return x
		}
		return y
	case OLshr:
		if t.A[1].IsConst() && t.A[1].C < 64 && depth <= 6 {
			return ub(t.A[0], depth+1) >> t.A[1].C
		}
	case OUrem:
		if t.A[1].IsConst() && t.A[1].C > 0 {
			return t.A[1].C - 1
		}
	case OIte:
		if depth > 6 {
			break
		}
		x, y := ub(t.A[1], depth+1), ub(t.A[2], depth+1)
		if x > y {
			return x
		}
		return y
	}
	return mask(w)
}

func (f *TF) Cmp(op Op, a, b *Term) *Term {
	if a.W != b.W {
		panic(fmt.Sprintf("Cmp width mismatch %d %d", a.W, b.W))
	}
	if a.W > 0 && op != OEq && !(a.IsConst() && b.IsConst()) {
		ua, ubb := ub(a, 0), ub(b, 0)
		half := uint64(1) << uint(a.W-1)
		if (op == OSlt || op == OSle) && ua < half && ubb < half {
			// both operands are non-negative: signed and unsigned order coincide
			if op == OSlt {
				op = OUlt
			} else {
				op = OUle
			}
		}
		switch op {
		case OUlt:
			if b.IsConst() && ua < b.C {
				return f.tt
			}
			if b.IsConst() && b.C == 0 {
				return f.ff
			}
			if a.IsConst() && a.C >= ubb {
				return f.ff
			}
		case OUle:
			if b.IsConst() && ua <= b.C {
				return f.tt
			}
			if a.IsConst() && a.C == 0 {
				return f.tt
			}
			if a.IsConst() && a.C > ubb {
				return f.ff
			}
		}
	}
	if a.IsConst() && b.IsConst() {
		x, y := a.C, b.C
		sx, sy := sext64(x, int(a.W)), sext64(y, int(a.W))
		switch op {
		case OEq:
			return f.Bool(x == y)
		case OUlt:
			return f.Bool(x < y)
		case OUle:
			return f.Bool(x <= y)
		case OSlt:
			return f.Bool(sx < sy)
		case OSle:
			return f.Bool(sx <= sy)
		}
	}
	if a == b {
		switch op {
		case OEq, OUle, OSle:
			return f.tt
		default:
			return f.ff
		}
	}
	if op == OEq {
		if a.W == 0 { // bool equality
			if a.IsConst() {
				if a.C == 1 {
					return b
				}
				return f.Not(b)
			}
			if b.IsConst() {
				if b.C == 1 {
					return a
				}
				return f.Not(a)
			}
		}
		if a.id > b.id {
			a, b = b, a
		}
		// (ite c k1 k2) == k : fold when constants
		if b.IsConst() && a.Op == OIte && a.A[1].IsConst() && a.A[2].IsConst() {
			e1, e2 := a.A[1].C == b.C, a.A[2].C == b.C
			switch {
			case e1 && e2:
				return f.tt
			case e1:
				return a.A[0]
			case e2:
				return f.Not(a.A[0])
			default:
				return f.ff
			}
		}
		if a.IsConst() && b.Op == OIte && b.A[1].IsConst() && b.A[2].IsConst() {
			e1, e2 := b.A[1].C == a.C, b.A[2].C == a.C
			switch {
			case e1 && e2:
				return f.tt
			case e1:
				return b.A[0]
			case e2:
				return f.Not(b.A[0])
			default:
				return f.ff
			}
		}
		// zext(x) == const : out of range => false
		if a.IsConst() && b.Op == OZext {
			if a.C > mask(int(b.A[0].W)) {
				return f.ff
			}
			return f.Cmp(OEq, f.Const(int(b.A[0].W), a.C), b.A[0])
		}
		if b.IsConst() && a.Op == OZext {
			if b.C > mask(int(a.A[0].W)) {
				return f.ff
			}
			return f.Cmp(OEq, a.A[0], f.Const(int(a.A[0].W), b.C))
		}
	}
	// unsigned comparisons of zext against constants
	if (op == OUlt || op == OUle || op == OSlt || op == OSle) && a.Op == OZext && b.IsConst() {
		iw := int(a.A[0].W)
		signedNeg := (op == OSlt || op == OSle) && sext64(b.C, int(b.W)) < 0
		if signedNeg {
			return f.ff
		}
		if b.C > mask(iw) {
			return f.tt
		}
		uop := op
		if op == OSlt {
			uop = OUlt
		} else if op == OSle {
			uop = OUle
		}
		return f.Cmp(uop, a.A[0], f.Const(iw, b.C))
	}
	if (op == OUlt || op == OUle || op == OSlt || op == OSle) && b.Op == OZext && a.IsConst() {
		iw := int(b.A[0].W)
		signedNeg := (op == OSlt || op == OSle) && sext64(a.C, int(a.W)) < 0
		if signedNeg {
			return f.tt
		}
		if a.C > mask(iw) {
			return f.ff
		}
		uop := op
		if op == OSlt {
			uop = OUlt
		} else if op == OSle {
			uop = OUle
		}
		return f.Cmp(uop, f.Const(iw, a.C), b.A[0])
	}
	return f.mk(op, 0, 0, 0, "", a, b)
}

func (f *TF) Not(a *Term) *Term {
	if a.IsConst() {
		return f.Bool(a.C == 0)
	}
	if a.Op == ONot {
		return a.A[0]
	}
	return f.mk(ONot, 0, 0, 0, "", a)
}
func (f *TF) And(a, b *Term) *Term {
	if a.False() || b.False() {
		return f.ff
	}
	if a.True() {
		return b
	}
	if b.True() {
		return a
	}
	if a == b {
		return a
	}
	if (a.Op == ONot && a.A[0] == b) || (b.Op == ONot && b.A[0] == a) {
		return f.ff
	}
	if a.id > b.id {
		a, b = b, a
	}
	return f.mk(OAnd, 0, 0, 0, "", a, b)
}
func (f *TF) Or(a, b *Term) *Term { return f.Not(f.And(f.Not(a), f.Not(b))) }
func (f *TF) Implies(a, b *Term) *Term {
	return f.Or(f.Not(a), b)
}
func (f *TF) Ite(c, a, b *Term) *Term {
	if c.True() {
		return a
	}
	if c.False() {
		return b
	}
	if a == b {
		return a
	}
	if a.W == 0 {
		// boolean ite
		if a.True() && b.False() {
			return c
		}
		if a.False() && b.True() {
			return f.Not(c)
		}
		return f.Or(f.And(c, a), f.And(f.Not(c), b))
	}
	if c.Op == ONot {
		return f.mk(OIte, int(a.W), 0, 0, "", c.A[0], b, a)
	}
	return f.mk(OIte, int(a.W), 0, 0, "", c, a, b)
}
func (f *TF) ZExt(a *Term, w int) *Term {
	if w == int(a.W) {
		return a
	}
	if a.IsConst() {
		return f.Const(w, a.C)
	}
	if a.Op == OZext {
		return f.ZExt(a.A[0], w)
	}
	if a.Op == OExtract && ub(a.A[0], 0) <= mask(int(a.W)) {
		return f.resize(a.A[0], w)
	}
	return f.mk(OZext, w, int32(w-int(a.W)), 0, "", a)
}
func (f *TF) SExt(a *Term, w int) *Term {
	if w == int(a.W) {
		return a
	}
	if a.IsConst() {
		return f.Const(w, uint64(sext64(a.C, int(a.W))))
	}
	if a.Op == OZext { // zero-extended value is non-negative
		return f.ZExt(a.A[0], w)
	}
	if a.Op == OExtract && ub(a.A[0], 0) < uint64(1)<<uint(a.W-1) {
		return f.resize(a.A[0], w)
	}
	if ub(a, 0) < uint64(1)<<uint(a.W-1) {
		return f.ZExt(a, w)
	}
	return f.mk(OSext, w, int32(w-int(a.W)), 0, "", a)
}
func (f *TF) Trunc(a *Term, w int) *Term {
	if w == int(a.W) {
		return a
	}
	if a.IsConst() {
		return f.Const(w, a.C)
	}
	if (a.Op == OZext || a.Op == OSext) && int(a.A[0].W) >= w {
		return f.Trunc(a.A[0], w)
	}
	if a.Op == OZext && int(a.A[0].W) < w {
		return f.ZExt(a.A[0], w)
	}
	return f.mk(OExtract, w, int32(w-1), 0, "", a)
}
// resize changes the width of a value known to fit in the target width (zero extension / truncation).
func (f *TF) resize(a *Term, w int) *Term {
	if w == int(a.W) {
		return a
	}
	if w < int(a.W) {
		return f.Trunc(a, w)
	}
	return f.ZExt(a, w)
}

func (f *TF) Bit(a *Term, i int) *Term {
	if a.IsConst() {
		return f.Bool((a.C>>uint(i))&1 == 1)
	}
	return f.mk(OBit, 0, int32(i), 0, "", a)
}

// Eval under a model (var name -> value); memo shared per model.
type Model struct {
	vals map[string]uint64
	memo map[int32]uint64
}

func NewModel(vals map[string]uint64) *Model {
	return &Model{vals: vals, memo: map[int32]uint64{}}
}

func (m *Model) Eval(t *Term) uint64 {
	switch t.Op {
	case OConst:
		return t.C
	case OVar:
		if t.W == 0 {
			return m.vals[t.Name] & 1
		}
		return m.vals[t.Name] & mask(int(t.W))
	}
	if v, ok := m.memo[t.id]; ok {
		return v
	}
	var r uint64
	b2 := func(b bool) uint64 {
		if b {
			return 1
		}
		return 0
	}
	switch t.Op {
	case ONot:
		r = 1 - m.Eval(t.A[0])
	case OAnd:
		if m.Eval(t.A[0]) == 0 {
			r = 0
		} else {
			r = m.Eval(t.A[1])
		}
	case OIte:
		if m.Eval(t.A[0]) == 1 {
			r = m.Eval(t.A[1])
		} else {
			r = m.Eval(t.A[2])
		}
	case OZext:
		r = m.Eval(t.A[0])
	case OSext:
		r = uint64(sext64(m.Eval(t.A[0]), int(t.A[0].W))) & mask(int(t.W))
	case OExtract:
		r = m.Eval(t.A[0]) & mask(int(t.W))
	case OBit:
		r = (m.Eval(t.A[0]) >> uint(t.Aux)) & 1
	case OEq:
		r = b2(m.Eval(t.A[0]) == m.Eval(t.A[1]))
	case OUlt:
		r = b2(m.Eval(t.A[0]) < m.Eval(t.A[1]))
	case OUle:
		r = b2(m.Eval(t.A[0]) <= m.Eval(t.A[1]))
	case OSlt:
		r = b2(sext64(m.Eval(t.A[0]), int(t.A[0].W)) < sext64(m.Eval(t.A[1]), int(t.A[0].W)))
	case OSle:
		r = b2(sext64(m.Eval(t.A[0]), int(t.A[0].W)) <= sext64(m.Eval(t.A[1]), int(t.A[0].W)))
	default:
		r = foldBin(t.Op, int(t.W), m.Eval(t.A[0]), m.Eval(t.A[1]))
	}
	m.memo[t.id] = r
	return r
}

func sortOf(w int) string {
	if w == 0 {
		return "Bool"
	}
	return fmt.Sprintf("(_ BitVec %d)", w)
}

func (t *Term) ref() string {
	switch t.Op {
	case OConst:
		if t.W == 0 {
			if t.C == 1 {
				return "true"
			}
			return "false"
		}
		return fmt.Sprintf("(_ bv%d %d)", t.C, t.W)
	case OVar:
		return t.Name
	}
	return fmt.Sprintf("t%d", t.id)
}

func (t *Term) body() string {
	switch t.Op {
	case OZext:
		return fmt.Sprintf("((_ zero_extend %d) %s)", t.Aux, t.A[0].ref())
	case OSext:
		return fmt.Sprintf("((_ sign_extend %d) %s)", t.Aux, t.A[0].ref())
	case OExtract:
		return fmt.Sprintf("((_ extract %d 0) %s)", t.Aux, t.A[0].ref())
	case OBit:
		return fmt.Sprintf("(= ((_ extract %d %d) %s) #b1)", t.Aux, t.Aux, t.A[0].ref())
	}
	var sb strings.Builder
	sb.WriteString("(" + opName[t.Op])
	for _, a := range t.A {
		if a != nil {
			sb.WriteString(" " + a.ref())
		}
	}
	sb.WriteString(")")
	return sb.String()
}

// String renders a small term for diagnostics.
func (t *Term) String() string {
	if t.Op == OConst || t.Op == OVar {
		return t.ref()
	}
	return fmt.Sprintf("t%d:%s", t.id, opName[t.Op])
}

func log2ceil(n int) int {
	if n <= 1 {
		return 0
	}
	return bits.Len(uint(n - 1))
}
