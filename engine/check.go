package main

// Property checks: job lists per property and tier, known findings, native replay of witnesses and
// counterexamples, evidence files.

import (
	"sync"
	"bytes"
	"encoding/json"
	"fmt"
	"os"
	"os/exec"
	"path/filepath"
	"sort"
	"strconv"
	"strings"
	"time"
)

type CheckSpec struct {
	ID          string
	Patterns    []string
	Jobs        func(tier string) []*JobCfg
	Assumptions []string
	Outside     []string
	Stubs       []string
	Bounds      func(tier string) string
	GoalsMust   bool // declared Goal()s must all be covered
	AllowBlocked bool
}

var checks = map[string]*CheckSpec{}

func register(c *CheckSpec) { checks[c.ID] = c }

type knownFile struct {
	Findings []KnownFinding `json:"findings"`
	Fixed    []string       `json:"fixed"`
}

func loadKnown(prop string) map[string]KnownFinding {
	out := map[string]KnownFinding{}
	b, err := os.ReadFile(filepath.Join(verifHome, "known_findings.json"))
	if err != nil {
		return out
	}
	var kf knownFile
	if err := json.Unmarshal(b, &kf); err != nil {
		fatalf(2, "known_findings.json: %v", err)
	}
	for _, f := range kf.Findings {
		if f.Property == prop && f.Status != "fixed" {
			out[f.ID] = f
		}
	}
	return out
}

// ---------- native replay ----------

type nativeOutcome struct {
	Failed      []string `json:"failed_asserts"`
	Panic       string   `json:"panic,omitempty"`
	Stack       string   `json:"stack,omitempty"`
	Diverged    string   `json:"diverged,omitempty"`
	AssumeFalse bool     `json:"assume_false,omitempty"`
	Obs         []ObsVal `json:"observations"`
	Covers      []string `json:"covers,omitempty"`
	Crashed     string   `json:"crashed,omitempty"`
}

type replayer struct {
	dir  string
	bins map[string]string // pkg -> test binary
	errs map[string]string
	trace      bool
	lastOutput string
}

func newReplayer() *replayer {
	d, err := os.MkdirTemp("", "gosym-replay-")
	if err != nil {
		fatalf(2, "mkdtemp: %v", err)
	}
	return &replayer{dir: d, bins: map[string]string{}, errs: map[string]string{}}
}

func (r *replayer) close() { os.RemoveAll(r.dir) }

func (r *replayer) binary(pkg string) (string, error) {
	if b, ok := r.bins[pkg]; ok {
		return b, nil
	}
	if e, ok := r.errs[pkg]; ok {
		return "", fmt.Errorf("%s", e)
	}
	ov := map[string]map[string]string{"Replace": {}}
	for virt, realp := range overlayFiles() {
		ov["Replace"][virt] = realp
	}
	ovb, _ := json.Marshal(ov)
	ovPath := filepath.Join(r.dir, "overlay.json")
	os.WriteFile(ovPath, ovb, 0o644)
	out := filepath.Join(r.dir, strings.ReplaceAll(pkg, "/", "_")+".test")
	rel := "./" + strings.TrimPrefix(strings.TrimPrefix(pkg, "rcproxy"), "/")
	cmd := exec.Command("go", "test", "-c", "-vet=off", "-tags", "verif", "-overlay", ovPath, "-o", out, rel)
	cmd.Dir = repoRoot
	cmd.Env = goEnv()
	var buf bytes.Buffer
	cmd.Stdout, cmd.Stderr = &buf, &buf
	if err := cmd.Run(); err != nil {
		r.errs[pkg] = "native build failed: " + buf.String()
		return "", fmt.Errorf("%s", r.errs[pkg])
	}
	r.bins[pkg] = out
	return out, nil
}

func (r *replayer) run(w *Witness) (*nativeOutcome, error) {
	bin, err := r.binary(w.Pkg)
	if err != nil {
		return nil, err
	}
	wp := filepath.Join(r.dir, "w_"+w.Hash+".json")
	b, _ := json.Marshal(w)
	os.WriteFile(wp, b, 0o644)
	op := wp + ".out"
	os.Remove(op)
	cmd := exec.Command(bin, "-test.run", "^TestVerifReplay$", "-test.timeout", "120s", "-test.count", "1")
	cmd.Dir = r.dir
	cmd.Env = append(os.Environ(), "VERIF_REPLAY="+wp, "VERIF_OUT="+op)
	if r.trace {
		cmd.Env = append(cmd.Env, "VERIF_TRACE=1")
	}
	var buf bytes.Buffer
	cmd.Stdout, cmd.Stderr = &buf, &buf
	runErr := cmd.Run()
	if r.trace {
		r.lastOutput = buf.String()
	}
	ob, err := os.ReadFile(op)
	if err != nil {
		// process died before writing an outcome: a runtime fatal error or os.Exit inside the code under test
		msg := buf.String()
		if len(msg) > 2000 {
			msg = msg[:2000]
		}
		return &nativeOutcome{Crashed: fmt.Sprintf("%v: %s", runErr, msg)}, nil
	}
	var out nativeOutcome
	if err := json.Unmarshal(ob, &out); err != nil {
		return nil, err
	}
	return &out, nil
}

func obsEqual(a []ObsVal, b []ObsVal) (bool, string) {
	if len(a) != len(b) {
		return false, fmt.Sprintf("observation count: engine %d, native %d", len(a), len(b))
	}
	for i := range a {
		if a[i].Label != b[i].Label || a[i].Int != b[i].Int || !bytes.Equal(a[i].Bytes, b[i].Bytes) {
			return false, fmt.Sprintf("observation %d (%s): engine int=%d bytes=%q, native (%s) int=%d bytes=%q", i, a[i].Label, a[i].Int, a[i].Bytes, b[i].Label, b[i].Int, b[i].Bytes)
		}
	}
	return true, ""
}

// reproduces reports whether the native outcome shows the expected violation.
func reproduces(w *Witness, o *nativeOutcome) bool {
	switch {
	case strings.HasPrefix(w.Expect, "assert:"):
		id := strings.TrimPrefix(w.Expect, "assert:")
		for _, f := range o.Failed {
			if f == id {
				return true
			}
		}
		return false
	case w.Expect == "panic":
		return o.Panic != "" || o.Crashed != ""
	}
	return false
}

// ---------- check ----------

type evidence struct {
	PropertyID  string                 `json:"property_id"`
	Tier        string                 `json:"tier"`
	Seed        int                    `json:"seed"`
	Level       string                 `json:"level"`
	Coverage    map[string]interface{} `json:"coverage"`
	Assumptions []string               `json:"assumptions"`
	WallS       float64                `json:"wall_s"`
	Violations  int                    `json:"violations"`
}

func cmdCheck(args []string) int {
	if len(args) < 1 {
		usage()
	}
	id := args[0]
	tier := envOr("VERIF_TIER", "quick")
	for i := 1; i < len(args); i++ {
		if args[i] == "--tier" && i+1 < len(args) {
			tier = args[i+1]
			i++
		}
	}
	seed, _ := strconv.Atoi(envOr("VERIF_SEED", "0"))
	spec, ok := checks[id]
	if !ok {
		fatalf(2, "unknown property %s", id)
	}
	t0 := time.Now()
	known := loadKnown(id)
	prog, lt := loadProgram(spec.Patterns...)
	fmt.Printf("[%s %s] loaded %v + SSA in %.1fs (regenerated from %s)\n", id, tier, spec.Patterns, lt.Seconds(), repoRoot)
	nw := 16
	if v := os.Getenv("GOSYM_WORKERS"); v != "" {
		nw, _ = strconv.Atoi(v)
	}
	jobs := spec.Jobs(tier)
	if f := os.Getenv("GOSYM_ONLYJOB"); f != "" { // debugging aid: run only the jobs whose name contains f
		var sel []*JobCfg
		for _, j := range jobs {
			if strings.Contains(j.Name, f) {
				sel = append(sel, j)
			}
		}
		jobs = sel
	}
	budget := 40 * time.Minute
	if tier == "thorough" {
		budget = 4 * time.Hour
	}
	if v, _ := strconv.Atoi(os.Getenv("GOSYM_CHECK_WALL_S")); v > 0 {
		budget = time.Duration(v) * time.Second
	}
	deadline := time.Now().Add(budget)
	results := make([]*JobResult, len(jobs))
	par, per := 1, nw
	if len(jobs) >= 4 && nw >= 8 {
		par, per = 4, nw/4
	}
	sem := make(chan struct{}, par)
	var wgj sync.WaitGroup
	var pmu sync.Mutex
	for i, j := range jobs {
		j.Property = id
		j.Known = known
		if j.MaxWallS == 0 {
			// a job that needs more than this on some tree (a change can make a harness explode) is cut and
			// reported as inconclusive; what it found up to then is still reported
			j.MaxWallS = 900
			if tier == "thorough" {
				j.MaxWallS = 5400
			}
			if v, _ := strconv.Atoi(os.Getenv("GOSYM_JOB_WALL_S")); v > 0 {
				j.MaxWallS = v
			}
		}
		wgj.Add(1)
		sem <- struct{}{}
		go func(i int, j *JobCfg) {
			defer wgj.Done()
			// the check as a whole has a wall budget too: jobs that would start after it are cut short at once
			left := int(time.Until(deadline).Seconds())
			if left < 5 {
				left = 5
			}
			if j.MaxWallS > left {
				j.MaxWallS = left
			}
			nwj := per
			if j.Workers > nwj {
				nwj = j.Workers
			}
			r := runJob(prog, j, nwj)
			pmu.Lock()
			fmt.Println("  " + r.summary())
			pmu.Unlock()
			results[i] = r
			<-sem
		}(i, j)
	}
	wgj.Wait()

	rp := newReplayer()
	defer rp.close()

	inconclusive := []string{}
	violLines := []string{}
	knownLines := map[string]string{}
	totalPaths, totalForks, totalInstrs, totalAsserts, validated, boundHits := 0, 0, 0, 0, 0, 0
	var qs SolverStats
	fns := map[string]bool{}
	var samples []interface{}
	distinct := 0
	modelOnly := 0
	replayDir := filepath.Join(outHome, "replays", id)
	os.MkdirAll(replayDir, 0o755)

	for _, r := range results {
		totalPaths += r.Paths
		totalForks += r.Forks
		totalInstrs += r.Instrs
		totalAsserts += r.Asserts
		distinct += len(r.Distinct)
		qs.Queries += r.Solver.Queries
		qs.Sat += r.Solver.Sat
		qs.Unsat += r.Solver.Unsat
		qs.Unknown += r.Solver.Unknown
		qs.HardQueries += r.Solver.HardQueries
		qs.Time += r.Solver.Time
		for f := range r.Fns {
			fns[f] = true
		}
		for st, n := range r.ByStatus {
			switch st {
			case "ok", "infeasible", "assertfail", "panic":
			case "bound":
				boundHits += n
				inconclusive = append(inconclusive, fmt.Sprintf("%s: %d paths hit a bound", r.Cfg.Name, n))
			case "blocked":
				if !spec.AllowBlocked {
					inconclusive = append(inconclusive, fmt.Sprintf("%s: %d paths blocked", r.Cfg.Name, n))
				}
			default:
				inconclusive = append(inconclusive, fmt.Sprintf("%s: %d paths ended %s", r.Cfg.Name, n, st))
			}
		}
		for d, n := range r.Details {
			if !strings.HasPrefix(d, "panic") && !strings.HasPrefix(d, "assertfail") && !(spec.AllowBlocked && strings.HasPrefix(d, "blocked")) {
				fmt.Printf("    %d x %s\n", n, d)
			}
		}
		if r.Truncated {
			inconclusive = append(inconclusive, fmt.Sprintf("%s: path or time budget of the job reached after %d paths", r.Cfg.Name, r.Paths))
		}
		if !r.Covers["end"] {
			inconclusive = append(inconclusive, fmt.Sprintf("%s: vacuous (no path reaches the end of the harness)", r.Cfg.Name))
		}
		if spec.GoalsMust {
			var missing []string
			for g := range r.Goals {
				if !r.Covers[g] {
					missing = append(missing, g)
				}
			}
			sort.Strings(missing)
			for _, g := range missing {
				// a cover goal no input can reach
				kid := ""
				for k, kf := range known {
					if kf.Assert == "cover:"+g || kf.Assert == "cover" {
						kid = k
					}
				}
				if kid != "" {
					knownLines[kid] = known[kid].What
					continue
				}
				p := filepath.Join(replayDir, "cover_"+sanitize(g)+".json")
				b, _ := json.MarshalIndent(map[string]interface{}{"property": id, "job": r.Cfg.Name, "unreachable_goal": g, "explanation": "no input within the bounds makes this goal true"}, "", " ")
				os.WriteFile(p, b, 0o644)
				violLines = append(violLines, fmt.Sprintf("VIOLATION property=%s replay=%s", id, p))
				fmt.Printf("    unreachable cover goal %q in %s\n", g, r.Cfg.Name)
			}
		}
		// violations: group by (id, known), replay a few per group
		groups := map[string][]Violation{}
		var order []string
		for _, v := range r.Viols {
			k := v.ID + "|" + v.Known + "|" + v.Kind
			if _, ok := groups[k]; !ok {
				order = append(order, k)
			}
			groups[k] = append(groups[k], v)
		}
		sort.Strings(order)
		for _, k := range order {
			vs := groups[k]
			v0 := vs[0]
			if v0.Kind == "unknown" {
				inconclusive = append(inconclusive, fmt.Sprintf("%s: %d assertion queries undecided (%s)", r.Cfg.Name, len(vs), v0.ID))
				continue
			}
			if v0.Known != "" {
				knownLines[v0.Known] = known[v0.Known].What
				continue
			}
			reproduced := false
			var firstW *Witness
			tried := 0
			var lastOut *nativeOutcome
			for _, v := range vs {
				if v.W == nil {
					continue
				}
				if firstW == nil {
					firstW = v.W
				}
				if tried >= 4 {
					break
				}
				tried++
				attempts := 1
				if v.W.MapOrd {
					attempts = 24
				}
				for a := 0; a < attempts && !reproduced; a++ {
					o, err := rp.run(v.W)
					if err != nil {
						inconclusive = append(inconclusive, "native replay unavailable: "+err.Error())
						break
					}
					lastOut = o
					if reproduces(v.W, o) {
						reproduced = true
						firstW = v.W
					}
				}
				if reproduced {
					break
				}
			}
			if firstW == nil {
				inconclusive = append(inconclusive, fmt.Sprintf("%s: violation %s without model", r.Cfg.Name, v0.ID))
				continue
			}
			p := filepath.Join(replayDir, firstW.Hash+".json")
			wb, _ := json.MarshalIndent(firstW, "", " ")
			os.WriteFile(p, wb, 0o644)
			switch {
			case reproduced:
				violLines = append(violLines, fmt.Sprintf("VIOLATION property=%s replay=%s", id, p))
				fmt.Printf("    violation %s (%s) in %s reproduced natively: %s\n", v0.ID, v0.Kind, r.Cfg.Name, v0.Detail)
			case !firstW.Forced:
				modelOnly++
				violLines = append(violLines, fmt.Sprintf("VIOLATION property=%s replay=%s", id, p))
				fmt.Printf("    violation %s (%s) in %s holds in the model; it needs environment choices a native run cannot force (short writes / random source / pool reuse / timer ticks of a background goroutine), so it was not replayed natively: %s\n", v0.ID, v0.Kind, r.Cfg.Name, v0.Detail)
			default:
				ob, _ := json.Marshal(lastOut)
				inconclusive = append(inconclusive, fmt.Sprintf("%s: solver counterexample for %s did not reproduce natively (engine/stub mismatch?) witness=%s native=%s", r.Cfg.Name, v0.ID, p, ob))
			}
		}
		// translator validation on completed paths
		for _, w := range r.Witnesses {
			if len(samples) < 6 {
				samples = append(samples, map[string]interface{}{"job": w.Job, "params": w.Params, "inputs": w.Inputs})
			}
			if !w.Forced {
				continue
			}
			attempts := 1
			if w.MapOrd {
				attempts = 24
			}
			okv := false
			why := ""
			for a := 0; a < attempts && !okv; a++ {
				o, err := rp.run(w)
				if err != nil {
					why = err.Error()
					break
				}
				if o.Crashed != "" || o.Panic != "" || len(o.Failed) > 0 || o.Diverged != "" || o.AssumeFalse {
					ob, _ := json.Marshal(o)
					why = "native run of a completed path did not complete cleanly: " + string(ob)
					continue
				}
				if eq, msg := obsEqual(w.Obs, o.Obs); !eq {
					why = msg
					continue
				}
				okv = true
			}
			if okv {
				validated++
			} else {
				p := filepath.Join(replayDir, "mismatch_"+w.Hash+".json")
				wb, _ := json.MarshalIndent(w, "", " ")
				os.WriteFile(p, wb, 0o644)
				inconclusive = append(inconclusive, fmt.Sprintf("%s: translator validation failed (%s) witness=%s", r.Cfg.Name, why, p))
			}
		}
	}

	var kids []string
	for k := range knownLines {
		kids = append(kids, k)
	}
	sort.Strings(kids)
	for _, k := range kids {
		fmt.Printf("KNOWN-FINDING: property=%s %s: %s\n", id, k, knownLines[k])
	}
	seen := map[string]bool{}
	for _, l := range violLines {
		if !seen[l] {
			fmt.Println(l)
			seen[l] = true
		}
	}
	for _, l := range inconclusive {
		fmt.Println("INCONCLUSIVE: " + l)
	}

	var fl []string
	for f := range fns {
		fl = append(fl, f)
	}
	sort.Strings(fl)
	var jobNames []string
	for _, r := range results {
		jobNames = append(jobNames, fmt.Sprintf("%s%v: paths=%d", r.Cfg.Func, r.Cfg.Params, r.Paths))
	}
	if len(samples) == 0 {
		samples = append(samples, "no completed path produced a witness")
	}
	bounds := ""
	if spec.Bounds != nil {
		bounds = spec.Bounds(tier)
	}
	ev := evidence{PropertyID: id, Tier: tier, Seed: seed, Level: "model_checking", WallS: time.Since(t0).Seconds(), Violations: len(seen),
		Assumptions: append(append([]string{}, spec.Assumptions...), "environment stubs: "+strings.Join(spec.Stubs, "; ")),
		Coverage: map[string]interface{}{
			"states":                        totalPaths,
			"transitions":                   totalForks + totalPaths,
			"traces_validated_against_impl": validated,
			"samples":                       samples,
			"explanation":                   "bounded symbolic execution of the repository's SSA (regenerated from the working tree on this run); states = explored paths (each a class of inputs), transitions = solver-decided forks; every assertion is an SMT query over all inputs of the path",
			"functions_encoded":             fl,
			"bounds":                        bounds,
			"jobs":                          jobNames,
			"bound_hits":                    boundHits,
			"distinct_paths":                distinct,
			"assertion_queries":             totalAsserts,
			"queries":                       map[string]int{"total": qs.Queries, "sat": qs.Sat, "unsat": qs.Unsat, "unknown": qs.Unknown, "assertion_tactic_qfbv": qs.HardQueries},
			"solver":                        solverBin + " (z3 5.1.0), incremental push/pop; assertion queries via (check-sat-using qfbv)",
			"solver_time_s":                 qs.Time.Seconds(),
			"ssa_instructions_interpreted":  totalInstrs,
			"known_findings_reported":       kids,
			"model_level_only_violations":   modelOnly,
			"outside_claim":                 spec.Outside,
			"inconclusive":                  inconclusive,
			"exhaustive":                    false,
		}}
	eb, _ := json.MarshalIndent(ev, "", " ")
	os.MkdirAll(filepath.Join(outHome, "evidence"), 0o755)
	os.WriteFile(filepath.Join(outHome, "evidence", id+".json"), eb, 0o644)
	fmt.Printf("[%s %s] paths=%d forks=%d assertion-queries=%d validated-natively=%d violations=%d known=%d wall=%.1fs\n", id, tier, totalPaths, totalForks, totalAsserts, validated, len(seen), len(kids), time.Since(t0).Seconds())
	if len(seen) > 0 {
		return 1
	}
	if len(inconclusive) > 0 {
		return 3
	}
	return 0
}

func cmdReplay(args []string) int {
	if len(args) < 1 {
		usage()
	}
	b, err := os.ReadFile(args[0])
	if err != nil {
		fatalf(2, "%v", err)
	}
	var w Witness
	if err := json.Unmarshal(b, &w); err != nil || w.Pkg == "" {
		fmt.Printf("%s\n(not a replayable witness: it documents a cover goal or a model-level finding)\n", b)
		return 1
	}
	rp := newReplayer()
	defer rp.close()
	attempts := 1
	if w.MapOrd {
		attempts = 24
	}
	if n, _ := strconv.Atoi(os.Getenv("GOSYM_REPLAY_TIMES")); n > 0 {
		// debugging aid: run the witness n times and print every outcome that is not clean
		for a := 0; a < n; a++ {
			o, err := rp.run(&w)
			if err != nil {
				fatalf(2, "%v", err)
			}
			if o.Panic != "" || o.Crashed != "" || o.Diverged != "" || len(o.Failed) > 0 {
				ob, _ := json.MarshalIndent(o, "", " ")
				fmt.Printf("run %d: %s\n", a, ob)
			}
		}
		return 0
	}
	for a := 0; a < attempts; a++ {
		o, err := rp.run(&w)
		if err != nil {
			fatalf(2, "%v", err)
		}
		ob, _ := json.MarshalIndent(o, "", " ")
		if reproduces(&w, o) {
			fmt.Printf("replay of %s (%s%v, expect %s): REPRODUCED\n%s\n", args[0], w.Func, w.Params, w.Expect, ob)
			return 1
		}
		if a == attempts-1 {
			fmt.Printf("replay of %s (%s%v, expect %s): not reproduced\n%s\n", args[0], w.Func, w.Params, w.Expect, ob)
		}
	}
	return 0
}

// cmdTrace: debugging aid for engine/native disagreements. The harness is run in the engine with
// every input pinned to the witness's values (one path) and natively with VERIF_TRACE=1; the notes
// (verifrt.Note) and observations of both runs are printed side by side.
func cmdTrace(args []string) int {
	if len(args) < 1 {
		usage()
	}
	b, err := os.ReadFile(args[0])
	if err != nil {
		fatalf(2, "%v", err)
	}
	var w Witness
	if err := json.Unmarshal(b, &w); err != nil || w.Pkg == "" {
		fatalf(2, "not a witness file")
	}
	var cfg *JobCfg
	for _, spec := range checks {
		for _, tier := range []string{"quick", "thorough"} {
			for _, j := range spec.Jobs(tier) {
				if cfg == nil && j.Name == w.Job && j.Func == w.Func {
					cfg = j
					cfg.Property = spec.ID
				}
			}
		}
	}
	if cfg == nil {
		cfg = &JobCfg{Property: "trace", Name: w.Job, Pkg: w.Pkg, Func: w.Func, Params: w.Params, MapOrderOff: true}
	}
	cfg.Known = map[string]KnownFinding{}
	cfg.Fixed = w.Inputs
	cfg.TraceOut = true
	cfg.Witnesses = 4
	prog, _ := loadProgram(w.Pkg)
	res := runJob(prog, cfg, 1)
	fmt.Println(res.summary())
	for _, wt := range res.Witnesses {
		fmt.Println("--- engine observations:")
		for _, o := range wt.Obs {
			fmt.Printf("    %s %s int=%d bytes=%q\n", o.Label, o.Kind, o.Int, o.Bytes)
		}
	}
	rp := newReplayer()
	defer rp.close()
	rp.trace = true
	o, err := rp.run(&w)
	if err != nil {
		fatalf(2, "%v", err)
	}
	fmt.Println("--- native run:")
	fmt.Print(rp.lastOutput)
	fmt.Printf("--- native outcome: failed=%v panic=%q diverged=%q\n", o.Failed, o.Panic, o.Diverged)
	for _, ob := range o.Obs {
		fmt.Printf("    %s %s int=%d bytes=%q\n", ob.Label, ob.Kind, ob.Int, ob.Bytes)
	}
	return 0
}
