package main

// Intrinsics: the environment models (syscalls, clock, pools, atomics), closed forms for assembly
// leaves, unsafe helpers, limited fmt, and the verifrt harness API.

import (
	"fmt"
	"go/types"
	"sort"
	"strconv"
	"strings"

	"golang.org/x/tools/go/ssa"
)

var stubPkgPrefixes = []string{
	"rcproxy/core/pkg/logging",
	"github.com/prometheus/",
	"github.com/sirupsen/logrus",
	"github.com/lestrrat-go/",
	"log",
	"os/signal",
	"runtime/debug",
	"runtime/pprof",
}

func isStubPkg(path string) bool {
	for _, p := range stubPkgPrefixes {
		if path == p || (strings.HasSuffix(p, "/") && strings.HasPrefix(path, p)) || strings.HasPrefix(path, p+"/") {
			return true
		}
	}
	return false
}

var initAllowPrefixes = []string{"rcproxy/", "github.com/petar/GoLLRB", "errors", "io", "strconv", "github.com/pkg/errors", "unicode/utf8", "sort", "strings", "bytes", "math", "container/list"}

func initAllowed(path string) bool {
	for _, p := range initAllowPrefixes {
		if path == p || strings.HasPrefix(path, p) && (strings.HasSuffix(p, "/") || len(path) == len(p) || path[len(p)] == '/') {
			return true
		}
	}
	return false
}

type intrinsicFn func(e *Exec, fn *ssa.Function, args []Value) Value

var intrinsics map[string]intrinsicFn

// intrinsics without side effects, allowed while both arms of a branch are evaluated speculatively
var pureIntrinsics = map[string]bool{
	"rcproxy/verifrt.And": true, "rcproxy/verifrt.Or": true, "rcproxy/verifrt.Not": true, "rcproxy/verifrt.Implies": true,
	"rcproxy/verifrt.Ite": true, "rcproxy/verifrt.IteByte": true, "rcproxy/verifrt.IteU32": true, "rcproxy/verifrt.IteBool": true,
	"bytes.IndexByte": true, "internal/bytealg.IndexByte": true, "strings.IndexByte": true, "internal/bytealg.IndexByteString": true,
	"strings.Index": true, "internal/bytealg.IndexString": true, "bytes.Index": true, "internal/bytealg.Index": true,
	"strings.Contains": true, "internal/bytealg.CountString": true, "internal/bytealg.Count": true, "bytes.Equal": true, "internal/bytealg.Equal": true,
}

func (e *Exec) tryIntrinsic(fn *ssa.Function, args []Value) (Value, bool) {
	name := fn.String()
	if in, ok := intrinsics[name]; ok {
		if len(e.spec) > 0 && !pureIntrinsics[name] {
			panic(specAbort{"intrinsic"})
		}
		return in(e, fn, args), true
	}
	if o := fn.Origin(); o != nil {
		if in, ok := intrinsics[o.String()]; ok {
			if len(e.spec) > 0 {
				panic(specAbort{"intrinsic"})
			}
			return in(e, fn, args), true
		}
	}
	if fn.Pkg != nil && fn.Pkg.Pkg.Path() == "rcproxy/verifrt" {
		e.unsupported("verifrt function without intrinsic: %s", name)
	}
	return nil, false
}

// ---------- environment ----------

type FD struct {
	id         int
	kind       string // sock | eventfd | epoll
	peer       *FD // the other end of a socketpair (a pointer: descriptor numbers are reused after close)
	rx         []*Term
	closed     bool
	peerClosed bool
	count      uint64 // eventfd counter
	events     uint32 // epoll interest
	registered bool
	wlimit     int  // remaining bytes accepted by writes when limited
	limited    bool // short-write mode
	sent       int
}

type poolState struct{ items []Value }

type Env struct {
	fds       map[int]*FD
	nextFd    int
	clockNs   int64
	pools     map[*Cell]*poolState
	bytePools map[int][]*SliceV
	onces     map[*Cell]bool
	hmaps     map[*Cell]*MapV
	files     map[string][]*Term
	shortWriteUsed bool
	mapRangeSeen   bool // a map with >= 2 live entries was iterated without exploring its order
	randUsed       bool
	ticks          int  // ticks a time.NewTicker channel is pre-loaded with (verifrt.SetTicks)
	modelOnly      bool // the path used an environment choice a native run cannot force
}

func newEnv() *Env {
	return &Env{fds: map[int]*FD{}, nextFd: 100, pools: map[*Cell]*poolState{}, bytePools: map[int][]*SliceV{}, onces: map[*Cell]bool{}, hmaps: map[*Cell]*MapV{}, files: map[string][]*Term{}}
}

func (env *Env) newFD(kind string) *FD {
	// POSIX: the lowest descriptor number that is not open (numbers are reused after close, which is
	// what a per-descriptor table that outlives its connection trips over)
	id := env.nextFd
	for {
		if f, ok := env.fds[id]; !ok || f.closed {
			break
		}
		id++
	}
	fd := &FD{id: id, kind: kind}
	env.fds[fd.id] = fd
	return fd
}

const (
	eAGAIN = 0xb
	eBADF  = 0x9
	ePIPE  = 0x20
	eCONNRESET = 0x68
)

func (e *Exec) errno(n uint64) Value {
	if n == 0 {
		return &IfaceV{}
	}
	return &IfaceV{T: e.namedType("syscall", "Errno"), V: e.tf.Const(64, n)}
}

func (e *Exec) namedType(pkg, name string) types.Type {
	key := pkg + "." + name
	if t, ok := e.typeCache[key]; ok {
		return t
	}
	p := e.prog.ImportedPackage(pkg)
	if p == nil {
		e.unsupported("package %s not loaded", pkg)
	}
	t := p.Type(name).Type()
	e.typeCache[key] = t
	return t
}

func ci(e *Exec, v int64) *Term { return e.tf.Const(64, uint64(v)) }

func (e *Exec) fdOf(v Value) *FD {
	t := v.(*Term)
	n := e.concretise(t)
	return e.env.fds[int(n)]
}

func (e *Exec) doWrite(fd *FD, data []*Term) Value {
	if fd == nil || fd.closed {
		return TupleV{ci(e, -1), e.errno(eBADF)}
	}
	switch fd.kind {
	case "eventfd":
		fd.count++
		return TupleV{ci(e, 8), e.errno(0)}
	case "sock":
		peer := fd.peer
		if peer == nil || peer.closed {
			return TupleV{ci(e, -1), e.errno(ePIPE)}
		}
		n := len(data)
		if fd.limited {
			if fd.wlimit <= 0 && n > 0 {
				return TupleV{ci(e, -1), e.errno(eAGAIN)}
			}
			if n > fd.wlimit {
				n = fd.wlimit
			}
			fd.wlimit -= n
		}
		peer.rx = append(peer.rx, data[:n]...)
		fd.sent += n
		return TupleV{ci(e, int64(n)), e.errno(0)}
	}
	return TupleV{ci(e, -1), e.errno(eBADF)}
}

func init() {
	intrinsics = map[string]intrinsicFn{}
	reg := func(f intrinsicFn, names ...string) {
		for _, n := range names {
			intrinsics[n] = f
		}
	}
	noop := func(e *Exec, fn *ssa.Function, args []Value) Value { return e.stubResult(fn.Signature, fn.String()) }

	// ----- syscalls -----
	reg(func(e *Exec, fn *ssa.Function, args []Value) Value {
		a := &ArrV{Cells: []*Cell{{V: ci(e, 0)}, {V: ci(e, 0)}}}
		x, y := e.env.newFD("sock"), e.env.newFD("sock")
		x.peer, y.peer = y, x
		a.Cells[0].V, a.Cells[1].V = ci(e, int64(x.id)), ci(e, int64(y.id))
		return TupleV{a, e.errno(0)}
	}, "golang.org/x/sys/unix.Socketpair", "syscall.Socketpair")
	reg(func(e *Exec, fn *ssa.Function, args []Value) Value {
		return e.doWrite(e.fdOf(args[0]), e.sliceBytesOrNil(args[1]))
	}, "golang.org/x/sys/unix.Write", "syscall.Write")
	reg(func(e *Exec, fn *ssa.Function, args []Value) Value {
		var data []*Term
		iov := args[1].(*SliceV)
		for i := 0; i < iov.Len; i++ {
			data = append(data, e.sliceBytesOrNil(e.loadCell(iov.Arr.Cells[iov.Off+i]))...)
		}
		return e.doWrite(e.fdOf(args[0]), data)
	}, "golang.org/x/sys/unix.Writev")
	reg(func(e *Exec, fn *ssa.Function, args []Value) Value {
		fd := e.fdOf(args[0])
		buf := args[1].(*SliceV)
		if fd == nil || fd.closed {
			return TupleV{ci(e, -1), e.errno(eBADF)}
		}
		switch fd.kind {
		case "eventfd":
			if fd.count == 0 {
				return TupleV{ci(e, -1), e.errno(eAGAIN)}
			}
			fd.count = 0
			return TupleV{ci(e, 8), e.errno(0)}
		case "sock":
			if len(fd.rx) == 0 {
				if fd.peerClosed {
					return TupleV{ci(e, 0), e.errno(0)}
				}
				return TupleV{ci(e, -1), e.errno(eAGAIN)}
			}
			n := len(fd.rx)
			if n > buf.Len {
				n = buf.Len
			}
			for i := 0; i < n; i++ {
				e.storeCell(buf.Arr.Cells[buf.Off+i], fd.rx[i])
			}
			fd.rx = fd.rx[n:]
			return TupleV{ci(e, int64(n)), e.errno(0)}
		}
		return TupleV{ci(e, -1), e.errno(eBADF)}
	}, "golang.org/x/sys/unix.Read", "syscall.Read")
	reg(func(e *Exec, fn *ssa.Function, args []Value) Value {
		fd := e.fdOf(args[0])
		if fd == nil || fd.closed {
			return e.errno(eBADF)
		}
		fd.closed = true
		fd.registered = false
		if p := fd.peer; p != nil {
			p.peerClosed = true
		}
		return e.errno(0)
	}, "golang.org/x/sys/unix.Close", "syscall.Close")
	reg(func(e *Exec, fn *ssa.Function, args []Value) Value {
		return TupleV{ci(e, int64(e.env.newFD("epoll").id)), e.errno(0)}
	}, "golang.org/x/sys/unix.EpollCreate1")
	reg(func(e *Exec, fn *ssa.Function, args []Value) Value {
		return TupleV{ci(e, int64(e.env.newFD("eventfd").id)), e.errno(0)}
	}, "golang.org/x/sys/unix.Eventfd")
	reg(func(e *Exec, fn *ssa.Function, args []Value) Value {
		op := e.concretise(args[1].(*Term))
		fd := e.fdOf(args[2])
		if fd == nil || fd.closed {
			return e.errno(eBADF)
		}
		switch op {
		case 1, 3: // ADD, MOD
			ev := args[3].(*PtrV)
			sv := e.loadCell(ev.C).(*StructV)
			fd.events = uint32(e.concretise(e.loadCell(sv.F[0]).(*Term)))
			fd.registered = true
		case 2:
			fd.registered = false
			fd.events = 0
		}
		return e.errno(0)
	}, "golang.org/x/sys/unix.EpollCtl")
	reg(func(e *Exec, fn *ssa.Function, args []Value) Value { return e.errno(0) },
		"golang.org/x/sys/unix.SetNonblock", "golang.org/x/sys/unix.SetsockoptInt", "syscall.SetNonblock")

	// ----- clock / random -----
	reg(func(e *Exec, fn *ssa.Function, args []Value) Value {
		e.env.clockNs += 1000
		const base = 62135596800 + 1800000000
		sec := base + e.env.clockNs/1e9
		nsec := e.env.clockNs % 1e9
		return &StructV{F: []*Cell{{V: e.tf.Const(64, uint64(nsec))}, {V: e.tf.Const(64, uint64(sec))}, {V: nilPtr}}}
	}, "time.Now")
	reg(func(e *Exec, fn *ssa.Function, args []Value) Value {
		n := args[0].(*Term)
		if n.IsConst() && n.C == 1 {
			return e.tf.Const(64, 0) // Intn(1) is 0 whatever the source
		}
		e.env.randUsed = true
		r := e.fresh("rand", 64)
		e.inputLog = append(e.inputLog, InputRec{Label: "rand", Kind: "rand", Terms: []*Term{r}, W: 64})
		e.addPC(e.tf.And(e.tf.Cmp(OSle, e.tf.Const(64, 0), r), e.tf.Cmp(OSlt, r, n)))
		return r
	}, "math/rand.Intn")

	// time.NewTicker: a ticker whose channel already holds the ticks the harness asked for
	// (verifrt.SetTicks): a goroutine body run with RunUntilBlocked consumes them and then parks.
	reg(func(e *Exec, fn *ssa.Function, args []Value) Value {
		pt := fn.Signature.Results().At(0).Type().(*types.Pointer)
		sv := e.zero(pt.Elem()).(*StructV)
		ch := &ChanV{Cap: e.env.ticks + 1}
		now := e.prog.ImportedPackage("time").Func("Now")
		for i := 0; i < e.env.ticks; i++ {
			ch.Buf = append(ch.Buf, e.call(now, nil))
		}
		e.env.ticks = 0
		e.env.modelOnly = true
		sv.F[0].V = ch
		return &PtrV{C: &Cell{V: sv}}
	}, "time.NewTicker")
	reg(noop, "(*time.Ticker).Stop", "(*time.Ticker).Reset")

	// ----- sync -----
	reg(noop, "(*sync.Mutex).Lock", "(*sync.Mutex).Unlock", "(*sync.RWMutex).Lock", "(*sync.RWMutex).Unlock",
		"(*sync.RWMutex).RLock", "(*sync.RWMutex).RUnlock", "(*sync.WaitGroup).Add", "(*sync.WaitGroup).Done", "(*sync.WaitGroup).Wait",
		"(*sync.Cond).Signal", "(*sync.Cond).Broadcast", "(*sync.Cond).Wait", "runtime.KeepAlive", "runtime.Gosched", "runtime.GC",
		"runtime.LockOSThread", "runtime.UnlockOSThread", "runtime.SetFinalizer", "time.Sleep",
		"rcproxy/core/pkg/utils.FormatRedisRESPMessages", "rcproxy/core/pkg/utils.FormatRedisIovRESPMessages")
	reg(func(e *Exec, fn *ssa.Function, args []Value) Value {
		p := args[0].(*PtrV)
		if !e.env.onces[p.C] {
			e.env.onces[p.C] = true
			e.callClosure(args[1].(*FuncV), nil)
		}
		return nil
	}, "(*sync.Once).Do")
	reg(func(e *Exec, fn *ssa.Function, args []Value) Value {
		p := args[0].(*PtrV)
		st := e.env.pools[p.C]
		if st != nil && len(st.items) > 0 {
			k := len(st.items) - 1
			if e.cfg.PoolAny && len(st.items) > 0 {
				conds := make([]*Term, len(st.items)+1)
				c := e.choose('c', conds)
				if c == len(st.items) {
					k = -1
				} else {
					k = c
				}
			}
			if k >= 0 {
				v := st.items[k]
				st.items = append(st.items[:k], st.items[k+1:]...)
				return v
			}
		}
		sv := e.loadCell(p.C).(*StructV)
		newf := e.loadCell(sv.F[len(sv.F)-1]).(*FuncV) // field New is last
		if newf.IsNil() {
			return &IfaceV{}
		}
		return e.callClosure(newf, nil)
	}, "(*sync.Pool).Get")
	reg(func(e *Exec, fn *ssa.Function, args []Value) Value {
		p := args[0].(*PtrV)
		if iv, ok := args[1].(*IfaceV); ok && iv.T == nil {
			return nil
		}
		st := e.env.pools[p.C]
		if st == nil {
			st = &poolState{}
			e.env.pools[p.C] = st
		}
		st.items = append(st.items, args[1])
		return nil
	}, "(*sync.Pool).Put")

	// ----- atomics -----
	for _, ty := range []string{"Int32", "Int64", "Uint32", "Uint64", "Uintptr", "Pointer"} {
		reg(func(e *Exec, fn *ssa.Function, args []Value) Value { return e.load(args[0]) }, "sync/atomic.Load"+ty)
		reg(func(e *Exec, fn *ssa.Function, args []Value) Value { e.store(args[0], args[1]); return nil }, "sync/atomic.Store"+ty)
		reg(func(e *Exec, fn *ssa.Function, args []Value) Value {
			old := e.load(args[0])
			e.store(args[0], args[1])
			return old
		}, "sync/atomic.Swap"+ty)
		reg(func(e *Exec, fn *ssa.Function, args []Value) Value {
			cur := e.load(args[0])
			if e.branch(e.eq(cur, args[1])) {
				e.store(args[0], args[2])
				return e.tf.tt
			}
			return e.tf.ff
		}, "sync/atomic.CompareAndSwap"+ty)
		if ty != "Pointer" {
			reg(func(e *Exec, fn *ssa.Function, args []Value) Value {
				n := e.tf.Bin(OAdd, e.load(args[0]).(*Term), args[1].(*Term))
				e.store(args[0], n)
				return n
			}, "sync/atomic.Add"+ty)
		}
	}

	// ----- unsafe helpers of the repository -----
	reg(func(e *Exec, fn *ssa.Function, args []Value) Value {
		s := args[0].(*StrV)
		if len(s.B) == 0 {
			return &SliceV{}
		}
		return e.newByteSlice(s.B, len(s.B))
	}, "rcproxy/core/pkg/utils.S2B", "rcproxy/core/internal/toolkit.StringToBytes")
	reg(func(e *Exec, fn *ssa.Function, args []Value) Value {
		s := args[0].(*SliceV)
		if s.Arr == nil {
			return &StrV{}
		}
		return &StrV{e.sliceBytes(s)}
	}, "rcproxy/core/pkg/utils.B2S", "rcproxy/core/internal/toolkit.BytesToString")
	reg(func(e *Exec, fn *ssa.Function, args []Value) Value {
		size := int(e.concretise(args[1].(*Term)))
		if size <= 0 {
			return &SliceV{}
		}
		idx := log2ceil(size)
		if l := e.env.bytePools[idx]; len(l) > 0 {
			s := l[len(l)-1]
			e.env.bytePools[idx] = l[:len(l)-1]
			return &SliceV{Arr: s.Arr, Off: s.Off, Len: size, Cap: 1 << uint(idx)}
		}
		a := e.newArr(types.Typ[types.Uint8], 1<<uint(idx))
		return &SliceV{Arr: a, Off: 0, Len: size, Cap: 1 << uint(idx)}
	}, "(*rcproxy/core/pkg/pool/byteslice.Pool).Get")
	reg(func(e *Exec, fn *ssa.Function, args []Value) Value {
		s := args[1].(*SliceV)
		size := s.Cap
		if size == 0 || s.Arr == nil {
			return nil
		}
		idx := log2ceil(size)
		if size != 1<<uint(idx) {
			idx--
		}
		e.env.bytePools[idx] = append(e.env.bytePools[idx], &SliceV{Arr: s.Arr, Off: s.Off, Len: 0, Cap: 1 << uint(idx)})
		return nil
	}, "(*rcproxy/core/pkg/pool/byteslice.Pool).Put")

	// ----- assembly leaves / closed forms -----
	indexByte := func(e *Exec, bs []*Term, c *Term) *Term {
		r := e.tf.Const(64, mask(64))
		for i := len(bs) - 1; i >= 0; i-- {
			r = e.tf.Ite(e.tf.Cmp(OEq, bs[i], c), e.tf.Const(64, uint64(i)), r)
		}
		return r
	}
	reg(func(e *Exec, fn *ssa.Function, args []Value) Value {
		return indexByte(e, e.sliceBytesOrNil(args[0]), args[1].(*Term))
	}, "bytes.IndexByte", "internal/bytealg.IndexByte")
	reg(func(e *Exec, fn *ssa.Function, args []Value) Value {
		return indexByte(e, args[0].(*StrV).B, args[1].(*Term))
	}, "strings.IndexByte", "internal/bytealg.IndexByteString")
	indexSeq := func(e *Exec, s, sub []*Term) *Term {
		r := e.tf.Const(64, mask(64))
		if len(sub) == 0 {
			return e.tf.Const(64, 0)
		}
		for i := len(s) - len(sub); i >= 0; i-- {
			m := e.tf.tt
			for k := range sub {
				m = e.tf.And(m, e.tf.Cmp(OEq, s[i+k], sub[k]))
			}
			r = e.tf.Ite(m, e.tf.Const(64, uint64(i)), r)
		}
		return r
	}
	reg(func(e *Exec, fn *ssa.Function, args []Value) Value {
		return indexSeq(e, args[0].(*StrV).B, args[1].(*StrV).B)
	}, "strings.Index", "internal/bytealg.IndexString")
	reg(func(e *Exec, fn *ssa.Function, args []Value) Value {
		return indexSeq(e, e.sliceBytesOrNil(args[0]), e.sliceBytesOrNil(args[1]))
	}, "bytes.Index", "internal/bytealg.Index")
	reg(func(e *Exec, fn *ssa.Function, args []Value) Value {
		r := indexSeq(e, args[0].(*StrV).B, args[1].(*StrV).B)
		return e.tf.Not(e.tf.Cmp(OEq, r, e.tf.Const(64, mask(64))))
	}, "strings.Contains")
	countByte := func(e *Exec, bs []*Term, c *Term) *Term {
		r := e.tf.Const(64, 0)
		for _, b := range bs {
			r = e.tf.Bin(OAdd, r, e.tf.Ite(e.tf.Cmp(OEq, b, c), e.tf.Const(64, 1), e.tf.Const(64, 0)))
		}
		return r
	}
	reg(func(e *Exec, fn *ssa.Function, args []Value) Value {
		return countByte(e, args[0].(*StrV).B, args[1].(*Term))
	}, "internal/bytealg.CountString")
	reg(func(e *Exec, fn *ssa.Function, args []Value) Value {
		return countByte(e, e.sliceBytesOrNil(args[0]), args[1].(*Term))
	}, "internal/bytealg.Count")
	reg(func(e *Exec, fn *ssa.Function, args []Value) Value {
		a, b := e.sliceBytesOrNil(args[0]), e.sliceBytesOrNil(args[1])
		return e.eq(&StrV{a}, &StrV{b})
	}, "bytes.Equal", "internal/bytealg.Equal")
	reg(func(e *Exec, fn *ssa.Function, args []Value) Value {
		n := int(e.concretise(args[0].(*Term)))
		a := e.newArr(types.Typ[types.Uint8], roundupsize(n))
		return &SliceV{Arr: a, Len: n, Cap: len(a.Cells)}
	}, "internal/bytealg.MakeNoZero")
	reg(func(e *Exec, fn *ssa.Function, args []Value) Value {
		// strings.Join on concrete geometry
		elems := args[0].(*SliceV)
		sep := args[1].(*StrV)
		var out []*Term
		for i := 0; i < elems.Len; i++ {
			if i > 0 {
				out = append(out, sep.B...)
			}
			out = append(out, e.loadCell(elems.Arr.Cells[elems.Off+i]).(*StrV).B...)
		}
		return &StrV{out}
	}, "strings.Join")
	reg(func(e *Exec, fn *ssa.Function, args []Value) Value {
		// sort.Strings: concrete contents only
		sl := args[0].(*SliceV)
		ss := make([]string, sl.Len)
		for i := range ss {
			s, ok := strConc(e.loadCell(sl.Arr.Cells[sl.Off+i]).(*StrV))
			if !ok {
				e.unsupported("sort.Strings on symbolic strings")
			}
			ss[i] = s
		}
		sort.Strings(ss)
		for i, s := range ss {
			e.storeCell(sl.Arr.Cells[sl.Off+i], e.strLit(s))
		}
		return nil
	}, "sort.Strings")

	// ----- network: there is none (as in the sandbox where replays run): every TCP dial is refused.
	// Backend connections of the harnesses come from the pools' Dial field (socketpairs), so the only
	// callers are pools that the real ticker created a moment ago and the harness has not adopted yet.
	reg(func(e *Exec, fn *ssa.Function, args []Value) Value {
		err := e.call(e.prog.ImportedPackage("errors").Func("New"), []Value{e.strLit("dial tcp: network is unreachable (model: no network)")})
		return TupleV{&IfaceV{}, err}
	}, "net.DialTimeout")

	// ----- errors / fmt / context -----
	reg(func(e *Exec, fn *ssa.Function, args []Value) Value { return nilPtr }, "github.com/pkg/errors.callers")
	reg(func(e *Exec, fn *ssa.Function, args []Value) Value {
		return e.sprintf(args[0].(*StrV), args[1].(*SliceV))
	}, "fmt.Sprintf")
	reg(func(e *Exec, fn *ssa.Function, args []Value) Value {
		s := e.sprintf(args[0].(*StrV), args[1].(*SliceV))
		return e.call(e.prog.ImportedPackage("errors").Func("New"), []Value{s})
	}, "fmt.Errorf")
	reg(func(e *Exec, fn *ssa.Function, args []Value) Value {
		cancel := &FuncV{Intr: func(e *Exec, args []Value) Value { return nil }, IName: "cancel"}
		return TupleV{&OpaqueV{"context"}, cancel}
	}, "context.WithCancel")
	reg(func(e *Exec, fn *ssa.Function, args []Value) Value { return &OpaqueV{"context"} }, "context.Background", "context.TODO")

	registerVerifrt(reg)
	registerHashmap(reg)
}

func (e *Exec) sliceBytesOrNil(v Value) []*Term {
	s, ok := v.(*SliceV)
	if !ok || s.Arr == nil {
		return nil
	}
	return e.sliceBytes(s)
}

// ---------- limited fmt.Sprintf ----------

func (e *Exec) fmtArg(verb byte, v Value) []*Term {
	switch x := v.(type) {
	case *IfaceV:
		if x.T == nil {
			return e.strLit("<nil>").B
		}
		if verb == 's' || verb == 'v' {
			// error / Stringer
			if types.Implements(x.T, errorType.Underlying().(*types.Interface)) {
				if m := e.prog.LookupMethod(x.T, nil, "Error"); m != nil {
					return e.call(m, []Value{x.V}).(*StrV).B
				}
			}
		}
		_, signed := widthOf(x.T)
		switch y := x.V.(type) {
		case *StrV:
			if verb == 'q' {
				s, ok := strConc(y)
				if !ok {
					e.unsupported("%%q of symbolic string")
				}
				return e.strLit(strconv.Quote(s)).B
			}
			return y.B
		case *SliceV:
			if w, _ := widthOf(x.T.Underlying().(*types.Slice).Elem()); w == 8 && (verb == 's') {
				return e.sliceBytesOrNil(y)
			}
			if verb == 'v' {
				// %v of a slice of concrete values
				var out []*Term
				out = append(out, e.tf.Const(8, '['))
				for i := 0; i < y.Len; i++ {
					if i > 0 {
						out = append(out, e.tf.Const(8, ' '))
					}
					el := e.loadCell(y.Arr.Cells[y.Off+i])
					et := x.T.Underlying().(*types.Slice).Elem()
					out = append(out, e.fmtArg('v', &IfaceV{T: et, V: el})...)
				}
				return append(out, e.tf.Const(8, ']'))
			}
		case *StructV:
			if verb == 'v' {
				st := x.T.Underlying().(*types.Struct)
				out := []*Term{e.tf.Const(8, '{')}
				for i := range y.F {
					if i > 0 {
						out = append(out, e.tf.Const(8, ' '))
					}
					out = append(out, e.fmtArg('v', &IfaceV{T: st.Field(i).Type(), V: e.loadCell(y.F[i])})...)
				}
				return append(out, e.tf.Const(8, '}'))
			}
		case *Term:
			if y.W == 0 {
				if !y.IsConst() {
					if e.branch(y) {
						return e.strLit("true").B
					}
					return e.strLit("false").B
				}
				if y.C == 1 {
					return e.strLit("true").B
				}
				return e.strLit("false").B
			}
			if verb == 'c' {
				return []*Term{e.tf.Trunc(y, 8)}
			}
			n := e.concretise(y)
			if verb == 'x' {
				return e.strLit(strconv.FormatUint(uint64(n)&mask(int(y.W)), 16)).B
			}
			if signed {
				return e.strLit(strconv.FormatInt(n, 10)).B
			}
			return e.strLit(strconv.FormatUint(uint64(n)&mask(int(y.W)), 10)).B
		case FloatV:
			return e.strLit(strconv.FormatFloat(float64(y), 'g', -1, 64)).B
		}
	}
	e.unsupported("fmt verb %%%c on %s", verb, e.describe(v))
	return nil
}

func (e *Exec) sprintf(format *StrV, args *SliceV) Value {
	fs, ok := strConc(format)
	if !ok {
		e.unsupported("symbolic format string")
	}
	var out []*Term
	ai := 0
	for i := 0; i < len(fs); i++ {
		c := fs[i]
		if c != '%' {
			out = append(out, e.tf.Const(8, uint64(c)))
			continue
		}
		i++
		if i >= len(fs) {
			break
		}
		for i < len(fs) && (fs[i] == '+' || fs[i] == '#' || fs[i] == '-' || (fs[i] >= '0' && fs[i] <= '9')) {
			i++
		}
		v := fs[i]
		if v == '%' {
			out = append(out, e.tf.Const(8, '%'))
			continue
		}
		if ai >= args.Len {
			out = append(out, e.strLit("%!"+string(v)+"(MISSING)").B...)
			continue
		}
		out = append(out, e.fmtArg(v, e.loadCell(args.Arr.Cells[args.Off+ai]))...)
		ai++
	}
	return &StrV{out}
}

var _ = fmt.Sprintf
