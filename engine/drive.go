package main

// Job exploration: work list of decision prefixes, worker pool (one solver process and one term
// factory per worker), path results, witnesses.

import (
	"strconv"
	"fmt"
	"go/types"
	"hash/fnv"
	"os"
	"runtime/debug"
	"sort"
	"strings"
	"sync"
	"time"

	"golang.org/x/tools/go/ssa"
)

type KnownFinding struct {
	Property string `json:"property"`
	ID       string `json:"id"`
	Assert   string `json:"assert,omitempty"` // assertion id (or "panic") this class applies to
	Site     string `json:"site,omitempty"`   // substring of the panic site
	What     string `json:"what"`
	Status   string `json:"status,omitempty"` // "" (open finding) | "fixed"
	Commit   string `json:"commit,omitempty"`
}

type JobCfg struct {
	Property string
	Name     string // display name
	Pkg      string // package path of the harness
	Func     string // harness function
	Params   []int64

	InstrBudget   int
	ConcretiseCap int
	MaxAlloc      int
	MapPermMax    int
	MapOrderOff   bool
	MapOrderSites []string
	PoolAny       bool
	NoIfConv      bool
	MaxPaths      int
	Workers       int // more workers than its share for a job known to be the long pole of its check
	MaxWallS      int // wall-clock budget of the job; when it is used up the job is cut and reported as truncated (inconclusive)
	Witnesses     int // max witnesses kept for native validation
	QueryTimeoutMs int
	Redirect       map[string]string // callee -> harness function standing in for it (a summary justified elsewhere)

	Known map[string]KnownFinding

	Fixed     []InputVal // trace mode: every harness input is pinned to the recorded value
	TraceOut  bool       // trace mode: print notes and observations of every completed path
}

type InputVal struct {
	Label string `json:"label"`
	Kind  string `json:"kind"`
	Ints  []int64 `json:"ints,omitempty"`
	Bytes []byte `json:"bytes,omitempty"`
}

type ObsVal struct {
	Label string `json:"label"`
	Kind  string `json:"kind"`
	Int   int64  `json:"int,omitempty"`
	Bytes []byte `json:"bytes,omitempty"`
}

type Witness struct {
	Job     string     `json:"job"`
	Pkg     string     `json:"pkg"`
	Func    string     `json:"func"`
	Params  []int64    `json:"params"`
	Inputs  []InputVal `json:"inputs"`
	Obs     []ObsVal   `json:"observations,omitempty"`
	Expect  string     `json:"expect"` // ok | assert:<id> | panic
	Detail  string     `json:"detail,omitempty"`
	Known   string     `json:"known,omitempty"`
	Forced  bool       `json:"env_forced"` // false if the path used choices a native run cannot force
	MapOrd  bool       `json:"map_order_dependent,omitempty"`
	Hash    string     `json:"hash"`
}

type PathResult struct {
	Status   string
	Detail   string
	Decs     int
	DecStr   string
	Instrs   int
	Forks    int
	Asserts  int
	Viols    []Violation
	Covers   []string
	Goals    []string
	Witness  *Witness
	Fns      []string
	Hash     uint64
	Notes    []string
}

type Violation struct {
	ID     string
	Kind   string
	Detail string
	Known  string
	W      *Witness
}

type JobResult struct {
	Cfg        *JobCfg
	Paths      int
	ByStatus   map[string]int
	Details    map[string]int
	Instrs     int
	Forks      int
	Asserts    int
	Viols      []Violation
	Covers     map[string]bool
	Goals      map[string]bool
	Witnesses  []*Witness
	Fns        map[string]bool
	Solver     SolverStats
	Wall       time.Duration
	Truncated  bool
	Distinct   map[uint64]bool
}

type worker struct {
	id     int
	tf     *TF
	solver *Solver
	paths  int
}

func (cfg *JobCfg) defaults() {
	if cfg.InstrBudget == 0 {
		cfg.InstrBudget = 5_000_000
	}
	if cfg.MaxAlloc == 0 {
		cfg.MaxAlloc = 1 << 17
	}
	if cfg.MapPermMax == 0 {
		cfg.MapPermMax = 3
	}
	if cfg.MaxPaths == 0 {
		cfg.MaxPaths = 2_000_000
	}
	if cfg.Witnesses == 0 {
		cfg.Witnesses = 8
	}
	if v, _ := strconv.Atoi(os.Getenv("GOSYM_WITNESSES")); v > 0 {
		cfg.Witnesses = v // debugging aid: validate (up to) this many completed paths natively
	}
}

var solverBin = "z3-new"

var progress = os.Getenv("GOSYM_PROGRESS") != ""

// defaultQueryTimeoutMs: budget of one escalated solver query (GOSYM_QUERY_TIMEOUT_MS overrides); an
// undecided query makes the run inconclusive
func defaultQueryTimeoutMs() int {
	if v, _ := strconv.Atoi(os.Getenv("GOSYM_QUERY_TIMEOUT_MS")); v > 0 {
		return v
	}
	return 120000
}

func runJob(prog *ssa.Program, cfg *JobCfg, nworkers int) *JobResult {
	cfg.defaults()
	t0 := time.Now()
	pkg := prog.ImportedPackage(cfg.Pkg)
	if pkg == nil {
		fatalf(2, "harness package %s not loaded", cfg.Pkg)
	}
	fn := pkg.Func(cfg.Func)
	if fn == nil {
		fatalf(2, "harness function %s.%s not found", cfg.Pkg, cfg.Func)
	}
	res := &JobResult{Cfg: cfg, ByStatus: map[string]int{}, Details: map[string]int{}, Covers: map[string]bool{}, Goals: map[string]bool{}, Fns: map[string]bool{}, Distinct: map[uint64]bool{}}

	var mu sync.Mutex
	cond := sync.NewCond(&mu)
	work := []WorkItem{{}}
	active := 0
	stop := false

	var wg sync.WaitGroup
	for i := 0; i < nworkers; i++ {
		wg.Add(1)
		go func(id int) {
			defer wg.Done()
			w := &worker{id: id, tf: NewTF(), solver: NewSolver(solverBin, "-in")}
			w.solver.timeout = cfg.QueryTimeoutMs
			if w.solver.timeout == 0 {
				w.solver.timeout = defaultQueryTimeoutMs()
			}
			if tp := os.Getenv("GOSYM_TEE"); tp != "" && id == 0 {
				w.solver.tee, _ = os.Create(tp)
			}
			defer func() {
				mu.Lock()
				st := w.solver.Stats
				res.Solver.Queries += st.Queries
				res.Solver.Sat += st.Sat
				res.Solver.Unsat += st.Unsat
				res.Solver.Unknown += st.Unknown
				res.Solver.HardQueries += st.HardQueries
				res.Solver.Escalated += st.Escalated
				res.Solver.Time += st.Time
				mu.Unlock()
				w.solver.Close()
			}()
			for {
				mu.Lock()
				for len(work) == 0 && active > 0 && !stop {
					cond.Wait()
				}
				if stop || (len(work) == 0 && active == 0) {
					mu.Unlock()
					cond.Broadcast()
					return
				}
				item := work[len(work)-1]
				work = work[:len(work)-1]
				active++
				mu.Unlock()

				var local []WorkItem
				pr := w.runPath(prog, fn, cfg, item, func(it WorkItem) { local = append(local, it) })

				mu.Lock()
				// push siblings so that the deepest (last created) is explored first
				work = append(work, local...)
				active--
				res.Paths++
				res.ByStatus[pr.Status]++
				if pr.Status != "ok" && pr.Status != "infeasible" {
					res.Details[pr.Status+": "+pr.Detail]++
				}
				res.Instrs += pr.Instrs
				res.Forks += pr.Forks
				res.Asserts += pr.Asserts
				res.Distinct[pr.Hash] = true
				for _, v := range pr.Viols {
					res.Viols = append(res.Viols, v)
				}
				for _, c := range pr.Covers {
					res.Covers[c] = true
				}
				for _, g := range pr.Goals {
					res.Goals[g] = true
				}
				for _, f := range pr.Fns {
					res.Fns[f] = true
				}
				if cfg.TraceOut && pr.Status != "infeasible" {
					fmt.Printf("--- engine path: status=%s %s\n", pr.Status, pr.Detail)
					for _, n := range pr.Notes {
						fmt.Println("    " + n)
					}
					for _, v := range pr.Viols {
						fmt.Printf("    VIOLATION %s %s %s\n", v.Kind, v.ID, v.Detail)
					}
				}
				if pr.Witness != nil {
					if len(res.Witnesses) < cfg.Witnesses {
						res.Witnesses = append(res.Witnesses, pr.Witness)
					} else if k := int(pr.Hash % uint64(res.Paths)); k < cfg.Witnesses {
						res.Witnesses[k] = pr.Witness
					}
				}
				if progress && res.Paths%200 == 0 {
					fmt.Fprintf(os.Stderr, "  progress %s: paths=%d work=%d active=%d status=%v last=%s/%s decs=%s\n", cfg.Name, res.Paths, len(work), active, res.ByStatus, pr.Status, pr.Detail, pr.DecStr)
				}
				if res.Paths >= cfg.MaxPaths || (cfg.MaxWallS > 0 && time.Since(t0) > time.Duration(cfg.MaxWallS)*time.Second) {
					stop = true
					res.Truncated = true
				}
				mu.Unlock()
				cond.Broadcast()
			}
		}(i)
	}
	wg.Wait()
	res.Wall = time.Since(t0)
	return res
}

func (w *worker) runPath(prog *ssa.Program, fn *ssa.Function, cfg *JobCfg, item WorkItem, push func(WorkItem)) (pr PathResult) {
	w.paths++
	if w.paths%400 == 0 || len(w.tf.list) > 400000 {
		w.tf = NewTF()
		w.solver.Reset()
	}
	e := &Exec{prog: prog, tf: w.tf, solver: w.solver, cfg: cfg,
		globals: map[*ssa.Global]*Cell{}, inited: map[*ssa.Package]bool{}, strCache: map[string]*StrV{}, methods: map[methodKey]*ssa.Function{},
		typeCache: w.typeCache(), prefix: item.Prefix, push: push, covers: map[string]bool{}, goals: map[string]bool{}, env: newEnv(),
		fnsEntered: map[string]bool{}, noSpec: map[*ssa.If]int{}}
	if item.Model != nil {
		e.model = NewModel(item.Model)
	}
	status, detail := "ok", ""
	func() {
		defer func() {
			if r := recover(); r != nil {
				switch x := r.(type) {
				case pathEnd:
					status, detail = x.status, x.detail
				case goPanic:
					status, detail = "panic", x.msg+" @ "+x.site
				case SolverErr:
					status, detail = "unsupported", x.msg
					// solver process may be broken: restart
					func() { defer func() { recover() }(); w.solver.Reset() }()
					w.tf = NewTF()
				case specAbort:
					status, detail = "enginebug", "stray specAbort "+x.why
				default:
					status, detail = "enginebug", fmt.Sprintf("%v @ %s\n%s", r, e.where(), trimStack(debug.Stack()))
				}
			}
		}()
		args := make([]Value, len(cfg.Params))
		for i, p := range cfg.Params {
			args[i] = e.tf.Const(64, uint64(p))
		}
		e.stack = append(e.stack, "harness")
		e.call(fn, args)
	}()
	if status == "exit" {
		status = "ok"
	}
	pr.Status, pr.Detail = status, detail
	pr.Decs, pr.Instrs, pr.Forks, pr.Asserts = len(e.prefix), e.instrs, e.forks, e.nAsserts
	h := fnv.New64a()
	for _, d := range e.prefix {
		fmt.Fprintf(h, "%c%d,", d.Kind, d.Val)
		if progress {
			pr.DecStr += fmt.Sprintf("%c%d ", d.Kind, d.Val)
		}
	}
	pr.Hash = h.Sum64()
	if cfg.TraceOut {
		pr.Notes = append([]string{}, e.notes...)
	}
	for k := range e.covers {
		pr.Covers = append(pr.Covers, k)
	}
	for k := range e.goals {
		pr.Goals = append(pr.Goals, k)
	}
	for k := range e.fnsEntered {
		pr.Fns = append(pr.Fns, k)
	}
	mapOrd := e.env.mapRangeSeen // natively Go picks an arbitrary order: a replay may need several attempts
	for _, d := range e.prefix {
		if d.Kind == 'o' {
			mapOrd = true
		}
	}
	forced := !e.env.shortWriteUsed && !e.env.randUsed && !cfg.PoolAny && !e.env.modelOnly
	mkW := func(model map[string]uint64, expect, det, known string) *Witness {
		m := NewModel(model)
		wt := &Witness{Job: cfg.Name, Pkg: cfg.Pkg, Func: cfg.Func, Params: cfg.Params, Expect: expect, Detail: det, Known: known, Forced: forced, MapOrd: mapOrd}
		for _, in := range e.inputLog {
			iv := InputVal{Label: in.Label, Kind: in.Kind}
			if in.Kind == "bytes" || in.Kind == "byte" {
				iv.Bytes = make([]byte, len(in.Terms))
				for i, t := range in.Terms {
					iv.Bytes[i] = byte(m.Eval(t))
				}
			} else {
				for _, t := range in.Terms {
					iv.Ints = append(iv.Ints, sext64(m.Eval(t), int(t.W)))
				}
			}
			wt.Inputs = append(wt.Inputs, iv)
		}
		hh := fnv.New64a()
		fmt.Fprintf(hh, "%s|%v|%s|", cfg.Func, cfg.Params, expect)
		for _, iv := range wt.Inputs {
			fmt.Fprintf(hh, "%s:%v:%x;", iv.Label, iv.Ints, iv.Bytes)
		}
		wt.Hash = fmt.Sprintf("%016x", hh.Sum64())
		return wt
	}
	func() {
		defer func() {
			if r := recover(); r != nil {
				pr.Status, pr.Detail = "unsupported", fmt.Sprintf("post-processing: %v", r)
			}
		}()
		for _, v := range e.viols {
			vv := Violation{ID: v.ID, Kind: v.Kind, Detail: v.Detail + " @ " + v.Stack, Known: v.Known}
			if v.Model != nil {
				vv.W = mkW(v.Model, "assert:"+v.ID, vv.Detail, v.Known)
			}
			pr.Viols = append(pr.Viols, vv)
		}
		if status == "panic" {
			// implicit assertion: classify against known classes, then produce a model
			kn := e.listedKnown("panic", detail)
			excl := e.tf.tt
			for _, k := range kn {
				excl = e.tf.And(excl, e.tf.Not(k.cond))
			}
			r, m := e.solver.Check(e.pc, excl, false, e.inputs)
			known := ""
			if r != Sat && len(kn) > 0 {
				r, m = e.solver.Check(e.pc, nil, false, e.inputs)
				if r == Sat {
					mm := NewModel(m)
					known = kn[0].id
					for _, k := range kn {
						if mm.Eval(k.cond) == 1 {
							known = k.id
						}
					}
				}
			}
			vv := Violation{ID: "panic", Kind: "panic", Detail: detail, Known: known}
			if r == Sat {
				vv.W = mkW(m, "panic", detail, known)
			}
			pr.Viols = append(pr.Viols, vv)
		}
		if status == "ok" && cfg.Witnesses > 0 {
			if e.ensureModel() {
				wt := mkW(e.model.vals, "ok", "", "")
				for _, o := range e.obs {
					ov := ObsVal{Label: o.Label, Kind: o.Kind}
					if o.Kind == "bytes" {
						ov.Bytes = make([]byte, len(o.Terms))
						for i, t := range o.Terms {
							ov.Bytes[i] = byte(e.model.Eval(t))
						}
					} else {
						ov.Int = sext64(e.model.Eval(o.Terms[0]), int(o.Terms[0].W))
					}
					wt.Obs = append(wt.Obs, ov)
				}
				pr.Witness = wt
			}
		}
	}()
	return pr
}

func (w *worker) typeCache() map[string]types.Type { return map[string]types.Type{} }

func trimStack(b []byte) string {
	lines := strings.Split(string(b), "\n")
	var out []string
	for _, l := range lines {
		if strings.Contains(l, "gosym") || strings.Contains(l, "main.") {
			out = append(out, strings.TrimSpace(l))
		}
		if len(out) > 24 {
			break
		}
	}
	return strings.Join(out, "\n")
}

func fatalf(code int, format string, a ...interface{}) {
	fmt.Fprintf(os.Stderr, "gosym: "+format+"\n", a...)
	os.Exit(code)
}

func (r *JobResult) summary() string {
	var st []string
	for k, v := range r.ByStatus {
		st = append(st, fmt.Sprintf("%s=%d", k, v))
	}
	sort.Strings(st)
	return fmt.Sprintf("job %-28s paths=%d [%s] instrs=%d forks=%d asserts=%d queries=%d (hard %d/esc %d, unknown %d) solver=%.1fs wall=%.1fs viols=%d",
		r.Cfg.Name, r.Paths, strings.Join(st, " "), r.Instrs, r.Forks, r.Asserts, r.Solver.Queries, r.Solver.HardQueries, r.Solver.Escalated, r.Solver.Unknown, r.Solver.Time.Seconds(), r.Wall.Seconds(), len(r.Viols))
}
