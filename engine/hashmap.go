package main

// Ideal-map model of github.com/cornelk/hashmap.HashMap (a lock-free map built on unsafe pointers),
// a canonical-YAML reader for gopkg.in/yaml.v3.Unmarshal, an in-memory file table, and
// RunUntilBlocked for goroutine bodies.

import (
	"go/types"
	"strings"

	"golang.org/x/tools/go/ssa"
)

func (e *Exec) hmap(recv Value) *MapV {
	p := recv.(*PtrV)
	m := e.env.hmaps[p.C]
	if m == nil {
		m = &MapV{index: map[string]*MapEntry{}}
		e.env.hmaps[p.C] = m
	}
	return m
}

func registerHashmap(reg func(f intrinsicFn, names ...string)) {
	const H = "(*github.com/cornelk/hashmap.HashMap)."
	reg(func(e *Exec, fn *ssa.Function, args []Value) Value {
		m := e.hmap(args[0])
		if ent := e.mapFind(m, args[1]); ent != nil {
			return TupleV{ent.V, e.tf.tt}
		}
		return TupleV{&IfaceV{}, e.tf.ff}
	}, H+"Get")
	reg(func(e *Exec, fn *ssa.Function, args []Value) Value {
		m := e.hmap(args[0])
		if ent := e.mapFind(m, args[1]); ent != nil {
			return TupleV{ent.V, e.tf.tt}
		}
		e.mapUpdate(m, args[1], args[2])
		return TupleV{args[2], e.tf.ff}
	}, H+"GetOrInsert")
	reg(func(e *Exec, fn *ssa.Function, args []Value) Value {
		m := e.hmap(args[0])
		if ent := e.mapFind(m, args[1]); ent != nil {
			return e.tf.ff
		}
		e.mapUpdate(m, args[1], args[2])
		return e.tf.tt
	}, H+"Insert")
	reg(func(e *Exec, fn *ssa.Function, args []Value) Value {
		e.mapUpdate(e.hmap(args[0]), args[1], args[2])
		return nil
	}, H+"Set")
	reg(func(e *Exec, fn *ssa.Function, args []Value) Value {
		e.mapDelete(e.hmap(args[0]), args[1])
		return nil
	}, H+"Del")
	reg(func(e *Exec, fn *ssa.Function, args []Value) Value {
		return e.tf.Const(64, uint64(e.hmap(args[0]).live))
	}, H+"Len")
	reg(func(e *Exec, fn *ssa.Function, args []Value) Value {
		m := e.hmap(args[0])
		ch := &ChanV{Closed: true}
		for _, ent := range m.Entries {
			if ent.deleted {
				continue
			}
			ch.Buf = append(ch.Buf, &StructV{F: []*Cell{{V: ent.K}, {V: ent.V}}})
		}
		ch.Cap = len(ch.Buf)
		return ch
	}, H+"Iter")

	// ----- files + canonical YAML -----
	reg(func(e *Exec, fn *ssa.Function, args []Value) Value {
		name := e.strArg(args[0])
		e.env.files[name] = e.sliceBytesOrNil(args[1])
		return nil
	}, "rcproxy/verifrt.PutFile")
	readFile := func(e *Exec, fn *ssa.Function, args []Value) Value {
		name := e.strArg(args[0])
		b, ok := e.env.files[name]
		if !ok {
			err := e.call(e.prog.ImportedPackage("errors").Func("New"), []Value{e.strLit("open " + name + ": no such file or directory")})
			return TupleV{&SliceV{}, err}
		}
		return TupleV{e.newByteSlice(b, len(b)), &IfaceV{}}
	}
	reg(readFile, "io/ioutil.ReadFile", "os.ReadFile")
	reg(func(e *Exec, fn *ssa.Function, args []Value) Value {
		// canonical documents only:  "<key>: <scalar>\n"  and  "<key>:\n  - <item>\n ..." ; concrete bytes
		s, ok := strConc(&StrV{e.sliceBytesOrNil(args[0])})
		if !ok {
			e.unsupported("yaml.Unmarshal of symbolic text")
		}
		iv := args[1].(*IfaceV)
		ptr := iv.V.(*PtrV)
		sv := e.loadCell(ptr.C).(*StructV)
		st := iv.T.(*types.Pointer).Elem().Underlying().(*types.Struct)
		field := func(key string) int {
			for i := 0; i < st.NumFields(); i++ {
				tag := st.Tag(i)
				if strings.Contains(tag, `yaml:"`+key+`"`) || strings.EqualFold(st.Field(i).Name(), key) {
					return i
				}
			}
			return -1
		}
		lines := strings.Split(s, "\n")
		for i := 0; i < len(lines); i++ {
			ln := lines[i]
			if strings.TrimSpace(ln) == "" {
				continue
			}
			k, v, found := strings.Cut(ln, ":")
			if !found {
				e.unsupported("yaml line %q", ln)
			}
			fi := field(strings.TrimSpace(k))
			v = strings.TrimSpace(v)
			if v == "" {
				var items []Value
				for i+1 < len(lines) && strings.HasPrefix(strings.TrimSpace(lines[i+1]), "- ") {
					i++
					items = append(items, e.strLit(strings.TrimSpace(strings.TrimPrefix(strings.TrimSpace(lines[i]), "- "))))
				}
				if fi >= 0 {
					arr := &ArrV{}
					for _, it := range items {
						arr.Cells = append(arr.Cells, &Cell{V: it})
					}
					e.storeCell(sv.F[fi], &SliceV{Arr: arr, Len: len(items), Cap: len(items)})
				}
				continue
			}
			if fi < 0 {
				continue
			}
			switch st.Field(fi).Type().Underlying().(type) {
			case *types.Basic:
				if isString(st.Field(fi).Type()) {
					e.storeCell(sv.F[fi], e.strLit(v))
				} else {
					e.storeCell(sv.F[fi], e.tf.Bool(v == "true"))
				}
			}
		}
		return &IfaceV{}
	}, "gopkg.in/yaml.v3.Unmarshal")

	// ----- goroutine bodies -----
	reg(func(e *Exec, fn *ssa.Function, args []Value) (ret Value) {
		fv := args[0].(*FuncV)
		depth, stackLen := e.depth, len(e.stack)
		defer func() {
			if r := recover(); r != nil {
				if pe, ok := r.(pathEnd); ok && pe.status == "blocked" {
					e.depth = depth
					e.stack = e.stack[:stackLen]
					ret = e.tf.tt
					return
				}
				panic(r)
			}
		}()
		e.callClosure(fv, nil)
		return e.tf.ff
	}, "rcproxy/verifrt.RunUntilBlocked")
}
