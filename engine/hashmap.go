package main

func registerHashmap(reg func(f intrinsicFn, names ...string)) {}
