package main

import (
	"runtime/debug"
	"runtime/pprof"
	"fmt"
	"os"
	"strconv"
)

func usage() {
	fmt.Fprintln(os.Stderr, `usage:
  gosym check <property-id> [--tier quick|thorough]
  gosym run <pkg> <Func> [int params...]      (debug: explore one harness job)
  gosym replay <witness.json>
  gosym trace <witness.json>                  (debug: engine with pinned inputs vs native run, with harness notes)
  gosym list`)
	os.Exit(2)
}

func main() {
	// the loaded SSA program is a large, long-lived heap: collect rarely
	debug.SetGCPercent(800)
	if len(os.Args) < 2 {
		usage()
	}
	switch os.Args[1] {
	case "run":
		if len(os.Args) < 4 {
			usage()
		}
		var params []int64
		for _, a := range os.Args[4:] {
			v, err := strconv.ParseInt(a, 10, 64)
			if err != nil {
				usage()
			}
			params = append(params, v)
		}
		genDocCommands()
		defer cleanupGen()
		prog, lt := loadProgram(os.Args[2])
		fmt.Printf("load+ssa %.1fs\n", lt.Seconds())
		cfg := &JobCfg{Property: "debug", Name: os.Args[3], Pkg: os.Args[2], Func: os.Args[3], Params: params, Known: map[string]KnownFinding{}}
		nw := 16
		if v := os.Getenv("GOSYM_WORKERS"); v != "" {
			nw, _ = strconv.Atoi(v)
		}
		if v := os.Getenv("GOSYM_SUMHASH"); v != "" {
			cfg.Redirect = map[string]string{"rcproxy/core/pkg/hashkit.Hash": "rcproxy/core.VerifSpecHash"}
		}
		if os.Getenv("GOSYM_NOMAPORDER") != "" {
			cfg.MapOrderOff = true
		}
		if v, _ := strconv.Atoi(os.Getenv("GOSYM_INSTRS")); v > 0 {
			cfg.InstrBudget = v
		}
		if os.Getenv("GOSYM_NOIFCONV") != "" {
			cfg.NoIfConv = true
		}
		if pf := os.Getenv("GOSYM_PROF"); pf != "" {
			f, _ := os.Create(pf)
			pprof.StartCPUProfile(f)
			defer pprof.StopCPUProfile()
		}
		res := runJob(prog, cfg, nw)
		fmt.Println(res.summary())
		for k, v := range res.Details {
			fmt.Printf("  %d x %s\n", v, k)
		}
		shown := map[string]int{}
		for _, v := range res.Viols {
			k := v.ID + "|" + v.Known
			shown[k]++
			if shown[k] > 2 {
				continue
			}
			fmt.Printf("  VIOL %s %s %s known=%q\n", v.Kind, v.ID, v.Detail, v.Known)
			if v.W != nil {
				for _, in := range v.W.Inputs {
					fmt.Printf("     %s %s %v %q\n", in.Label, in.Kind, in.Ints, in.Bytes)
				}
			}
		}
		for i, w := range res.Witnesses {
			if i > 2 {
				break
			}
			fmt.Printf("  witness: ")
			for _, in := range w.Inputs {
				fmt.Printf("%s=%v%q ", in.Label, in.Ints, in.Bytes)
			}
			fmt.Println()
		}
	case "check":
		genDocCommands()
		rc := cmdCheck(os.Args[2:])
		cleanupGen()
		os.Exit(rc)
	case "trace":
		genDocCommands()
		rc := cmdTrace(os.Args[2:])
		cleanupGen()
		os.Exit(rc)
	case "replay":
		genDocCommands()
		rc := cmdReplay(os.Args[2:])
		cleanupGen()
		os.Exit(rc)
	default:
		usage()
	}
}
