package main

// The SSA interpreter: frames, instruction dispatch, forking by re-execution, if-conversion.

import (
	"fmt"
	"go/constant"
	"go/token"
	"go/types"
	"strings"
	"sync"

	"golang.org/x/tools/go/ssa"
)

// ---------- decisions / path end ----------

type Decision struct {
	Kind byte // 'b' branch, 'v' value, 'k' map key, 'o' map order, 'p' ptr class, 'c' choice
	Val  int64
}

type pathEnd struct {
	status string // ok | panic | infeasible | bound | unsupported | blocked | assertfail | exit
	detail string
}

type specAbort struct{ why string }

type goPanic struct {
	msg  string
	site string
}

type InputRec struct {
	Label string
	Kind  string // byte | bytes | int | bool | choice
	Terms []*Term
	W     int
}

type ObsRec struct {
	Label string
	Kind  string // int | bytes | bool | str
	Terms []*Term
}

type ViolRec struct {
	ID      string // assertion id or "panic:<site>"
	Kind    string // assert | panic | unsupported
	Detail  string
	Known   string // known-finding id if classified
	Model   map[string]uint64
	PC      int
	Stack   string
	HasSpec bool
}

type knownClass struct {
	id   string
	cond *Term
}

// ---------- per-function static info ----------

type fnInfo struct {
	idx    map[ssa.Value]int
	name   string
	intr   intrinsicFn
	pure   bool
	stub   bool
	repo   bool
	nregs  int
	defBlock []*ssa.BasicBlock // per register: defining block (nil for parameters and free variables)
	ipdom  map[*ssa.BasicBlock]*ssa.BasicBlock
}

var fnInfoCache sync.Map // *ssa.Function -> *fnInfo

func getFnInfo(fn *ssa.Function) *fnInfo {
	if v, ok := fnInfoCache.Load(fn); ok {
		return v.(*fnInfo)
	}
	fi := &fnInfo{idx: map[ssa.Value]int{}, name: fn.String()}
	if in, ok := intrinsics[fi.name]; ok {
		fi.intr, fi.pure = in, pureIntrinsics[fi.name]
	} else if o := fn.Origin(); o != nil {
		if in, ok := intrinsics[o.String()]; ok {
			fi.intr = in
		}
	}
	if fn.Pkg != nil {
		fi.stub = isStubPkg(fn.Pkg.Pkg.Path())
		fi.repo = strings.HasPrefix(fn.Pkg.Pkg.Path(), "rcproxy/")
	}
	n := 0
	for _, p := range fn.Params {
		fi.idx[p] = n
		n++
	}
	for _, p := range fn.FreeVars {
		fi.idx[p] = n
		n++
	}
	for _, b := range fn.Blocks {
		for _, in := range b.Instrs {
			if v, ok := in.(ssa.Value); ok {
				fi.idx[v] = n
				n++
			}
		}
	}
	fi.nregs = n
	fi.defBlock = make([]*ssa.BasicBlock, n)
	for _, b := range fn.Blocks {
		for _, in := range b.Instrs {
			if v, ok := in.(ssa.Value); ok {
				fi.defBlock[fi.idx[v]] = b
			}
		}
	}
	fi.ipdom = computeIPDom(fn)
	v, _ := fnInfoCache.LoadOrStore(fn, fi)
	return v.(*fnInfo)
}

// immediate post-dominators via iterative set intersection (functions are small).
func computeIPDom(fn *ssa.Function) map[*ssa.BasicBlock]*ssa.BasicBlock {
	n := len(fn.Blocks)
	if n == 0 || n > 400 {
		return nil
	}
	// pdom sets as bitsets over n+1 nodes (n = virtual exit)
	words := (n + 1 + 63) / 64
	full := make([]uint64, words)
	for i := 0; i <= n; i++ {
		full[i/64] |= 1 << uint(i%64)
	}
	pd := make([][]uint64, n+1)
	for i := 0; i < n; i++ {
		pd[i] = append([]uint64{}, full...)
	}
	pd[n] = make([]uint64, words)
	pd[n][n/64] |= 1 << uint(n%64)
	succs := func(b *ssa.BasicBlock) []int {
		if len(b.Succs) == 0 {
			return []int{n}
		}
		r := make([]int, len(b.Succs))
		for i, s := range b.Succs {
			r[i] = s.Index
		}
		return r
	}
	changed := true
	for changed {
		changed = false
		for i := n - 1; i >= 0; i-- {
			b := fn.Blocks[i]
			nw := append([]uint64{}, full...)
			for _, s := range succs(b) {
				for w := range nw {
					nw[w] &= pd[s][w]
				}
			}
			nw[i/64] |= 1 << uint(i%64)
			for w := range nw {
				if nw[w] != pd[i][w] {
					changed = true
				}
			}
			pd[i] = nw
		}
	}
	has := func(set []uint64, i int) bool { return set[i/64]&(1<<uint(i%64)) != 0 }
	count := func(set []uint64) int {
		c := 0
		for i := 0; i <= n; i++ {
			if has(set, i) {
				c++
			}
		}
		return c
	}
	res := map[*ssa.BasicBlock]*ssa.BasicBlock{}
	for i := 0; i < n; i++ {
		// ipdom = strict post-dominator with the largest pdom set
		best, bestc := -1, -1
		for j := 0; j <= n; j++ {
			if j == i || !has(pd[i], j) {
				continue
			}
			c := count(pd[j])
			if c > bestc {
				best, bestc = j, c
			}
		}
		if best >= 0 && best < n {
			res[fn.Blocks[i]] = fn.Blocks[best]
		}
	}
	return res
}

// ---------- executor ----------

type methodKey struct {
	t types.Type
	m *types.Func
}

type specFrame struct {
	writes map[*Cell]Value
	order  []*Cell
	blocks int
	stopAt *ssa.BasicBlock
	preset []Value // phi values of stopAt already merged by a nested if-conversion ending at the same join
	hasPre bool
}

type WorkItem struct {
	Prefix []Decision
	Model  map[string]uint64
}

type Exec struct {
	prog   *ssa.Program
	tf     *TF
	solver *Solver
	cfg    *JobCfg

	globals  map[*ssa.Global]*Cell
	inited   map[*ssa.Package]bool
	strCache map[string]*StrV
	methods  map[methodKey]*ssa.Function
	typeCache map[string]types.Type

	prefix []Decision
	pos    int
	pc     []*Term
	model  *Model
	push   func(WorkItem)

	inputs   []*Term
	inputLog []InputRec
	obs      []ObsRec
	viols    []ViolRec
	known    []knownClass
	covers   map[string]bool
	goals    map[string]bool
	notes    []string

	instrs     int
	depth      int
	spec       []*specFrame
	nvar       int
	env        *Env
	stack      []string
	fnsEntered map[string]bool
	forks      int
	nAsserts   int
	noSpec     map[*ssa.If]int
}

func (e *Exec) fresh(label string, w int) *Term {
	t := e.tf.Var(fmt.Sprintf("in%d_%s", e.nvar, sanitize(label)), w)
	e.nvar++
	e.inputs = append(e.inputs, t)
	return t
}

func sanitize(s string) string {
	var sb strings.Builder
	for _, r := range s {
		if (r >= 'a' && r <= 'z') || (r >= 'A' && r <= 'Z') || (r >= '0' && r <= '9') || r == '_' {
			sb.WriteRune(r)
		} else {
			sb.WriteByte('_')
		}
	}
	return sb.String()
}

func (e *Exec) unsupported(format string, a ...interface{}) {
	if len(e.spec) > 0 {
		panic(specAbort{"unsupported"})
	}
	panic(pathEnd{"unsupported", fmt.Sprintf(format, a...) + " @ " + e.where()})
}

func (e *Exec) where() string {
	if len(e.stack) == 0 {
		return "?"
	}
	n := len(e.stack)
	lo := n - 6
	if lo < 0 {
		lo = 0
	}
	return strings.Join(e.stack[lo:], " > ")
}

func (e *Exec) goPanic(msg string) {
	if len(e.spec) > 0 {
		panic(specAbort{"panic"})
	}
	panic(goPanic{msg: msg, site: e.where()})
}

func (e *Exec) addPC(c *Term) {
	if c.True() {
		return
	}
	e.pc = append(e.pc, c)
	if e.model != nil && e.model.Eval(c) != 1 {
		e.model = nil
	}
}

func (e *Exec) ensureModel() bool {
	if e.model != nil {
		return true
	}
	r, m := e.solver.Check(e.pc, nil, false, e.inputs)
	if r == Sat {
		e.model = NewModel(m)
		return true
	}
	if r == Unknown {
		panic(pathEnd{"unsupported", "solver unknown on path condition"})
	}
	return false
}

func (e *Exec) curPrefix() []Decision {
	return append([]Decision{}, e.prefix[:e.pos]...)
}

// branch decides a symbolic boolean.
func (e *Exec) branch(c *Term) bool {
	if c.True() {
		return true
	}
	if c.False() {
		return false
	}
	if len(e.spec) > 0 {
		panic(specAbort{"branch"})
	}
	if e.pos < len(e.prefix) {
		d := e.prefix[e.pos]
		if d.Kind != 'b' {
			panic(fmt.Sprintf("decision mismatch: want b got %c at %d (%s)", d.Kind, e.pos, e.where()))
		}
		e.pos++
		b := d.Val == 1
		if b {
			e.addPC(c)
		} else {
			e.addPC(e.tf.Not(c))
		}
		return b
	}
	e.forks++
	var first bool
	if e.model != nil {
		first = e.model.Eval(c) == 1
	} else {
		r, m := e.solver.Check(e.pc, c, false, e.inputs)
		switch r {
		case Sat:
			first = true
			e.model = NewModel(m)
		case Unsat:
			first = false
		default:
			panic(pathEnd{"unsupported", "solver unknown at branch"})
		}
	}
	other := e.tf.Not(c)
	if !first {
		other = c
	}
	r, m := e.solver.Check(e.pc, other, false, e.inputs)
	if r == Unknown {
		panic(pathEnd{"unsupported", "solver unknown at branch"})
	}
	if r == Sat {
		alt := append(e.curPrefix(), Decision{'b', b2i(!first)})
		e.push(WorkItem{alt, m})
	}
	e.prefix = append(e.prefix[:e.pos], Decision{'b', b2i(first)})
	e.pos++
	if first {
		e.addPC(c)
	} else {
		e.addPC(e.tf.Not(c))
	}
	return first
}

func b2i(b bool) int64 {
	if b {
		return 1
	}
	return 0
}

// concretise a symbolic integer: enumerate all feasible values (signed interpretation).
func (e *Exec) concretise(t *Term) int64 { return e.concretiseN(t, 0) }

func (e *Exec) concretiseN(t *Term, limit int) int64 {
	if t.IsConst() {
		return t.S64()
	}
	if len(e.spec) > 0 {
		panic(specAbort{"concretise"})
	}
	if e.pos < len(e.prefix) {
		d := e.prefix[e.pos]
		if d.Kind != 'v' {
			panic(fmt.Sprintf("decision mismatch: want v got %c at %d (%s)", d.Kind, e.pos, e.where()))
		}
		e.pos++
		e.addPC(e.tf.Cmp(OEq, t, e.tf.Const(int(t.W), uint64(d.Val))))
		return d.Val
	}
	e.forks++
	var vals []int64
	var models []map[string]uint64
	block := e.tf.tt
	if e.model != nil {
		v := e.model.Eval(t)
		vals = append(vals, sext64(v, int(t.W)))
		models = append(models, nil)
		block = e.tf.Not(e.tf.Cmp(OEq, t, e.tf.Const(int(t.W), v)))
	}
	if limit == 0 {
		limit = e.cfg.ConcretiseCap
	}
	if limit == 0 {
		limit = 64
	}
	for {
		r, m := e.solver.Check(e.pc, block, false, append(append([]*Term{}, e.inputs...), t))
		if r == Unknown {
			panic(pathEnd{"unsupported", "solver unknown at concretise"})
		}
		if r == Unsat {
			break
		}
		mm := NewModel(m)
		v := mm.Eval(t)
		vals = append(vals, sext64(v, int(t.W)))
		models = append(models, m)
		block = e.tf.And(block, e.tf.Not(e.tf.Cmp(OEq, t, e.tf.Const(int(t.W), v))))
		if len(vals) > limit {
			panic(pathEnd{"bound", fmt.Sprintf("concretise>%d values @ %s", limit, e.where())})
		}
	}
	if len(vals) == 0 {
		panic(pathEnd{"infeasible", "concretise"})
	}
	cur := e.curPrefix()
	for i := 1; i < len(vals); i++ {
		e.push(WorkItem{append(append([]Decision{}, cur...), Decision{'v', vals[i]}), models[i]})
	}
	e.prefix = append(e.prefix[:e.pos], Decision{'v', vals[0]})
	e.pos++
	if models[0] != nil {
		e.model = NewModel(models[0])
	}
	e.addPC(e.tf.Cmp(OEq, t, e.tf.Const(int(t.W), uint64(vals[0]))))
	return vals[0]
}

// choose among n alternatives given as feasibility conditions (nil cond = always). Returns chosen index.
// kind distinguishes decision kinds in the prefix.
func (e *Exec) choose(kind byte, conds []*Term) int {
	if len(e.spec) > 0 {
		panic(specAbort{"choose"})
	}
	if e.pos < len(e.prefix) {
		d := e.prefix[e.pos]
		if d.Kind != kind {
			panic(fmt.Sprintf("decision mismatch: want %c got %c at %d (%s)", kind, d.Kind, e.pos, e.where()))
		}
		e.pos++
		if c := conds[d.Val]; c != nil {
			e.addPC(c)
		}
		return int(d.Val)
	}
	e.forks++
	var feas []int
	var models []map[string]uint64
	for i, c := range conds {
		if c == nil || c.True() {
			feas = append(feas, i)
			models = append(models, nil)
			continue
		}
		if c.False() {
			continue
		}
		if e.model != nil && e.model.Eval(c) == 1 {
			feas = append(feas, i)
			models = append(models, e.model.vals)
			continue
		}
		r, m := e.solver.Check(e.pc, c, false, e.inputs)
		if r == Unknown {
			panic(pathEnd{"unsupported", "solver unknown at choose"})
		}
		if r == Sat {
			feas = append(feas, i)
			models = append(models, m)
		}
	}
	if len(feas) == 0 {
		panic(pathEnd{"infeasible", "choose"})
	}
	cur := e.curPrefix()
	for j := 1; j < len(feas); j++ {
		e.push(WorkItem{append(append([]Decision{}, cur...), Decision{kind, int64(feas[j])}), models[j]})
	}
	e.prefix = append(e.prefix[:e.pos], Decision{kind, int64(feas[0])})
	e.pos++
	if c := conds[feas[0]]; c != nil {
		if models[0] != nil && (e.model == nil || e.model.Eval(c) != 1) {
			e.model = NewModel(models[0])
		}
		e.addPC(c)
	}
	return feas[0]
}

// ---------- memory ----------

func (e *Exec) loadCell(c *Cell) Value {
	if c.released != nil && *c.released {
		e.goPanic("use of pooled buffer after release")
	}
	for i := len(e.spec) - 1; i >= 0; i-- {
		if v, ok := e.spec[i].writes[c]; ok {
			return v
		}
	}
	return c.V
}

func (e *Exec) storeCell(c *Cell, v Value) {
	if c.released != nil && *c.released {
		e.goPanic("write to pooled buffer after release")
	}
	if n := len(e.spec); n > 0 {
		sf := e.spec[n-1]
		if _, ok := sf.writes[c]; !ok {
			sf.order = append(sf.order, c)
		}
		sf.writes[c] = v
		return
	}
	c.V = v
}

func (e *Exec) global(g *ssa.Global) *Cell {
	if c, ok := e.globals[g]; ok {
		return c
	}
	e.initPackage(g.Pkg)
	c, ok := e.globals[g]
	if !ok {
		c = &Cell{V: e.zero(g.Type().(*types.Pointer).Elem())}
		e.globals[g] = c
	}
	return c
}

func (e *Exec) initPackage(p *ssa.Package) {
	if e.inited[p] {
		return
	}
	e.inited[p] = true
	for _, m := range p.Members {
		if gg, ok := m.(*ssa.Global); ok {
			if _, ok := e.globals[gg]; !ok {
				e.globals[gg] = &Cell{V: e.zero(gg.Type().(*types.Pointer).Elem())}
			}
		}
	}
	path := p.Pkg.Path()
	if isStubPkg(path) || !initAllowed(path) {
		return
	}
	if init := p.Func("init"); init != nil {
		if len(e.spec) > 0 {
			panic(specAbort{"init"})
		}
		saved := e.stack
		e.stack = append(append([]string{}, saved...), "init:"+path)
		e.call(init, nil)
		e.stack = saved
	}
}

// ---------- frames ----------

type deferred struct {
	fn   Value
	args []Value
	inv  *ssa.CallCommon
}

type Frame struct {
	fn     *ssa.Function
	fi     *fnInfo
	regs   []Value
	prev   *ssa.BasicBlock
	defers []deferred
	result Value
}

func (e *Exec) get(f *Frame, v ssa.Value) Value {
	switch x := v.(type) {
	case *ssa.Const:
		return e.constVal(x)
	case *ssa.Global:
		return &PtrV{C: e.global(x)}
	case *ssa.Function:
		return &FuncV{Fn: x}
	case *ssa.Builtin:
		return &FuncV{IName: "builtin:" + x.Name()}
	}
	i, ok := f.fi.idx[v]
	if !ok {
		panic("unbound " + v.Name() + " in " + f.fn.String())
	}
	r := f.regs[i]
	if r == nil {
		panic("nil reg " + v.Name() + " in " + f.fn.String())
	}
	return r
}

func (e *Exec) constVal(c *ssa.Const) Value {
	if c.Value == nil {
		return e.zero(c.Type())
	}
	t := c.Type()
	if w, _ := widthOf(t); w >= 0 {
		if w == 0 {
			return e.tf.Bool(constant.BoolVal(c.Value))
		}
		switch c.Value.Kind() {
		case constant.Int:
			if v, ok := constant.Int64Val(c.Value); ok {
				return e.tf.Const(w, uint64(v))
			}
			v, _ := constant.Uint64Val(c.Value)
			return e.tf.Const(w, v)
		case constant.Float:
			f, _ := constant.Float64Val(c.Value)
			return e.tf.Const(w, uint64(int64(f)))
		}
	}
	if isFloat(t) {
		f, _ := constant.Float64Val(constant.ToFloat(c.Value))
		return FloatV(f)
	}
	if c.Value.Kind() == constant.String {
		return e.strLit(constant.StringVal(c.Value))
	}
	panic("const " + c.String())
}

const maxDepth = 200

func (e *Exec) call(fn *ssa.Function, args []Value) Value {
	if len(e.cfg.Redirect) > 0 {
		if to, ok := e.cfg.Redirect[getFnInfo(fn).name]; ok {
			i := strings.LastIndex(to, ".")
			pkg := e.prog.ImportedPackage(to[:i])
			if pkg == nil || pkg.Func(to[i+1:]) == nil {
				e.unsupported("redirect target %s not found", to)
			}
			e.fnsEntered["(summarised by its specification) "+fn.String()] = true
			fn = pkg.Func(to[i+1:])
		}
	}
	fi := getFnInfo(fn)
	if fi.intr != nil {
		if len(e.spec) > 0 && !fi.pure {
			panic(specAbort{"intrinsic"})
		}
		return fi.intr(e, fn, args)
	}
	if fi.repo && fn.Pkg.Pkg.Path() == "rcproxy/verifrt" {
		e.unsupported("verifrt function without intrinsic: %s", fi.name)
	}
	if fi.stub {
		return e.stubResult(fn.Signature, fi.name)
	}
	if fn.Blocks == nil {
		if o := fn.Origin(); o != nil && o.Blocks != nil {
			e.unsupported("uninstantiated generic %s", fn)
		}
		e.unsupported("no body: %s", fn)
	}
	if len(e.spec) > 0 {
		panic(specAbort{"call"})
	}
	e.depth++
	if e.depth > maxDepth {
		panic(pathEnd{"bound", "call depth"})
	}
	e.stack = append(e.stack, fi.name)
	if fi.repo {
		e.fnsEntered[fi.name] = true
	}
	f := &Frame{fn: fn, fi: fi, regs: make([]Value, fi.nregs)}
	for i := range fn.Params {
		f.regs[i] = args[i]
	}
	r := e.runFrom(f, fn.Blocks[0], nil, false)
	e.stack = e.stack[:len(e.stack)-1]
	e.depth--
	return r
}

func (e *Exec) callClosure(fv *FuncV, args []Value) Value {
	if fv.Intr != nil {
		return fv.Intr(e, args)
	}
	if fv.Fn == nil {
		e.goPanic("call of nil func")
	}
	if len(fv.Free) == 0 {
		return e.call(fv.Fn, args)
	}
	fn := fv.Fn
	if len(e.spec) > 0 {
		panic(specAbort{"call"})
	}
	e.depth++
	if e.depth > maxDepth {
		panic(pathEnd{"bound", "call depth"})
	}
	fi := getFnInfo(fn)
	e.stack = append(e.stack, fi.name)
	if fi.repo {
		e.fnsEntered[fi.name] = true
	}
	f := &Frame{fn: fn, fi: fi, regs: make([]Value, fi.nregs)}
	for i := range fn.Params {
		f.regs[i] = args[i]
	}
	for i := range fn.FreeVars {
		f.regs[len(fn.Params)+i] = fv.Free[i]
	}
	r := e.runFrom(f, fn.Blocks[0], nil, false)
	e.stack = e.stack[:len(e.stack)-1]
	e.depth--
	return r
}

func (e *Exec) stubResult(sig *types.Signature, what string) Value {
	res := sig.Results()
	mk := func(t types.Type) Value {
		if w, _ := widthOf(t); w >= 0 {
			return e.tf.Const(w, 0)
		}
		switch t.Underlying().(type) {
		case *types.Pointer, *types.Signature, *types.Map, *types.Chan:
			return &OpaqueV{what}
		case *types.Interface:
			if types.Identical(t, errorType) {
				return &IfaceV{}
			}
			return &OpaqueV{what}
		}
		return e.zero(t)
	}
	switch res.Len() {
	case 0:
		return nil
	case 1:
		return mk(res.At(0).Type())
	}
	tv := make(TupleV, res.Len())
	for i := range tv {
		tv[i] = mk(res.At(i).Type())
	}
	return tv
}

var errorType = types.Universe.Lookup("error").Type()

// runFrom executes blocks starting at b until a Return (returns its value) or, if stopAt != nil,
// until control reaches stopAt (returns nil; f.prev is the predecessor).
func (e *Exec) runFrom(f *Frame, b *ssa.BasicBlock, stopAt *ssa.BasicBlock, skipPhis bool) Value {
	for {
		if stopAt != nil {
			if b == stopAt {
				return nil
			}
			sf := e.spec[len(e.spec)-1]
			sf.blocks++
			if sf.blocks > 24 {
				panic(specAbort{"region too large"})
			}
		}
		var next *ssa.BasicBlock
		instrs := b.Instrs
		i := 0
		// phis: parallel assignment
		if !skipPhis {
			if _, ok := instrs[0].(*ssa.Phi); ok {
				pi := -1
				for k, p := range b.Preds {
					if p == f.prev {
						pi = k
						break
					}
				}
				var vals []Value
				for ; i < len(instrs); i++ {
					ph, ok := instrs[i].(*ssa.Phi)
					if !ok {
						break
					}
					vals = append(vals, e.get(f, ph.Edges[pi]))
				}
				for k, v := range vals {
					f.regs[f.fi.idx[instrs[k].(*ssa.Phi)]] = v
				}
			}
		} else {
			for i < len(instrs) {
				if _, ok := instrs[i].(*ssa.Phi); !ok {
					break
				}
				i++
			}
			skipPhis = false
		}
		for ; i < len(instrs); i++ {
			in := instrs[i]
			e.instrs++
			if e.instrs > e.cfg.InstrBudget {
				panic(pathEnd{"bound", "instruction budget"})
			}
			switch x := in.(type) {
			case *ssa.BinOp:
				f.regs[f.fi.idx[x]] = e.binop(x.Op, e.get(f, x.X), e.get(f, x.Y), x.X.Type())
			case *ssa.UnOp:
				f.regs[f.fi.idx[x]] = e.unop(x, e.get(f, x.X))
			case *ssa.Store:
				e.store(e.get(f, x.Addr), e.get(f, x.Val))
			case *ssa.FieldAddr:
				p := e.get(f, x.X)
				f.regs[f.fi.idx[x]] = e.fieldAddr(p, x.Field)
			case *ssa.Field:
				sv := e.get(f, x.X).(*StructV)
				f.regs[f.fi.idx[x]] = copyVal(e.loadCell(sv.F[x.Field]))
			case *ssa.IndexAddr:
				f.regs[f.fi.idx[x]] = e.indexAddr(e.get(f, x.X), e.idx64(f, x.Index), x.X.Type())
			case *ssa.Index:
				f.regs[f.fi.idx[x]] = e.index(e.get(f, x.X), e.idx64(f, x.Index))
			case *ssa.Call:
				f.regs[f.fi.idx[x]] = e.doCall(f, &x.Call)
			case *ssa.If:
				c := e.get(f, x.Cond).(*Term)
				if c.True() {
					next = b.Succs[0]
				} else if c.False() {
					next = b.Succs[1]
				} else if nb, ok := e.tryIfConvert(f, x, c, b); ok {
					// merged: continue at join with phis already set
					f.prev = nil
					b = nb
					skipPhis = true
					goto nextBlock
				} else if e.branch(c) {
					next = b.Succs[0]
				} else {
					next = b.Succs[1]
				}
			case *ssa.Jump:
				next = b.Succs[0]
			case *ssa.Return:
				if stopAt != nil {
					panic(specAbort{"return"})
				}
				var r Value
				switch len(x.Results) {
				case 0:
				case 1:
					r = e.get(f, x.Results[0])
				default:
					t := make(TupleV, len(x.Results))
					for k, rr := range x.Results {
						t[k] = e.get(f, rr)
					}
					r = t
				}
				return r
			case *ssa.Phi:
				panic("phi in middle of block")
			case *ssa.Convert:
				f.regs[f.fi.idx[x]] = e.convert(e.get(f, x.X), x.X.Type(), x.Type())
			case *ssa.ChangeType:
				f.regs[f.fi.idx[x]] = e.get(f, x.X)
			case *ssa.Extract:
				f.regs[f.fi.idx[x]] = e.get(f, x.Tuple).(TupleV)[x.Index]
			case *ssa.Alloc:
				f.regs[f.fi.idx[x]] = &PtrV{C: &Cell{V: e.zero(x.Type().(*types.Pointer).Elem())}}
			case *ssa.Slice:
				f.regs[f.fi.idx[x]] = e.sliceOp(f, x)
			case *ssa.MakeInterface:
				v := e.get(f, x.X)
				if _, isOp := v.(*OpaqueV); isOp {
					f.regs[f.fi.idx[x]] = v
				} else {
					f.regs[f.fi.idx[x]] = &IfaceV{T: x.X.Type(), V: copyVal(v)}
				}
			case *ssa.ChangeInterface:
				f.regs[f.fi.idx[x]] = e.get(f, x.X)
			case *ssa.TypeAssert:
				f.regs[f.fi.idx[x]] = e.typeAssert(x, e.get(f, x.X))
			case *ssa.MakeClosure:
				fv := &FuncV{Fn: x.Fn.(*ssa.Function)}
				for _, b := range x.Bindings {
					fv.Free = append(fv.Free, e.get(f, b))
				}
				f.regs[f.fi.idx[x]] = fv
			case *ssa.MakeSlice:
				f.regs[f.fi.idx[x]] = e.makeSlice(x, e.get(f, x.Len).(*Term), e.get(f, x.Cap).(*Term))
			case *ssa.MakeMap:
				mt := x.Type().Underlying().(*types.Map)
				f.regs[f.fi.idx[x]] = &MapV{KT: mt.Key(), VT: mt.Elem(), index: map[string]*MapEntry{}}
			case *ssa.MakeChan:
				n := e.get(f, x.Size).(*Term)
				f.regs[f.fi.idx[x]] = &ChanV{Cap: int(e.concretise(n))}
			case *ssa.Lookup:
				f.regs[f.fi.idx[x]] = e.lookup(x, e.get(f, x.X), e.get(f, x.Index))
			case *ssa.MapUpdate:
				if len(e.spec) > 0 {
					panic(specAbort{"mapupdate"})
				}
				e.mapUpdate(e.get(f, x.Map), e.get(f, x.Key), copyVal(e.get(f, x.Value)))
			case *ssa.Range:
				f.regs[f.fi.idx[x]] = e.rangeOp(e.get(f, x.X))
			case *ssa.Next:
				f.regs[f.fi.idx[x]] = e.nextOp(x, e.get(f, x.Iter).(*mapIter))
			case *ssa.Defer:
				if len(e.spec) > 0 {
					panic(specAbort{"defer"})
				}
				d := deferred{}
				if x.Call.IsInvoke() {
					d.inv = &x.Call
					d.fn = e.get(f, x.Call.Value)
				} else {
					d.fn = e.get(f, x.Call.Value)
				}
				for _, a := range x.Call.Args {
					d.args = append(d.args, e.get(f, a))
				}
				f.defers = append(f.defers, d)
			case *ssa.RunDefers:
				for len(f.defers) > 0 {
					d := f.defers[len(f.defers)-1]
					f.defers = f.defers[:len(f.defers)-1]
					e.runDeferred(d)
				}
			case *ssa.Panic:
				v := e.get(f, x.X)
				e.goPanic("panic: " + e.describe(v))
			case *ssa.Go:
				e.notes = append(e.notes, "go:"+x.Call.String())
			case *ssa.Send:
				if len(e.spec) > 0 {
					panic(specAbort{"send"})
				}
				ch := e.get(f, x.Chan).(*ChanV)
				if ch.Nil || len(ch.Buf) >= ch.Cap {
					panic(pathEnd{"blocked", "send on full/nil channel"})
				}
				ch.Buf = append(ch.Buf, e.get(f, x.X))
			case *ssa.Select:
				f.regs[f.fi.idx[x]] = e.selectOp(f, x)
			case *ssa.DebugRef:
			case *ssa.SliceToArrayPointer:
				s := e.get(f, x.X).(*SliceV)
				n := x.Type().(*types.Pointer).Elem().Underlying().(*types.Array).Len()
				if int64(s.Len) < n {
					e.goPanic("slice to array pointer: length too short")
				}
				f.regs[f.fi.idx[x]] = &PtrV{C: &Cell{V: &ArrV{Cells: s.Arr.Cells[s.Off : s.Off+int(n)]}}}
			default:
				e.unsupported("instruction %T in %s", in, f.fn)
			}
		}
		f.prev = b
		b = next
		if b == nil {
			panic("fell off block in " + f.fn.String())
		}
	nextBlock:
	}
}

func (e *Exec) runDeferred(d deferred) {
	if d.inv != nil {
		e.invoke(d.fn, d.inv.Method, d.args)
		return
	}
	fv := d.fn.(*FuncV)
	if strings.HasPrefix(fv.IName, "builtin:") {
		e.builtin(fv.IName[8:], d.args, nil)
		return
	}
	e.callClosure(fv, d.args)
}

func (e *Exec) doCall(f *Frame, c *ssa.CallCommon) Value {
	args := make([]Value, 0, len(c.Args)+1)
	if c.IsInvoke() {
		recv := e.get(f, c.Value)
		for _, a := range c.Args {
			args = append(args, e.get(f, a))
		}
		return e.invoke(recv, c.Method, args)
	}
	for _, a := range c.Args {
		args = append(args, e.get(f, a))
	}
	switch fnv := c.Value.(type) {
	case *ssa.Builtin:
		return e.builtin(fnv.Name(), args, c)
	case *ssa.Function:
		if fnv.Name() == "init" && fnv.Synthetic != "" && f.fn.Name() == "init" && fnv.Pkg != f.fn.Pkg {
			// dependency package initialiser: packages are initialised lazily
			return nil
		}
		return e.call(fnv, args)
	}
	v := e.get(f, c.Value)
	switch fv := v.(type) {
	case *FuncV:
		return e.callClosure(fv, args)
	case *OpaqueV:
		return e.stubResult(c.Signature(), fv.What)
	}
	e.unsupported("call of %T", v)
	return nil
}

func (e *Exec) invoke(recv Value, m *types.Func, args []Value) Value {
	switch r := recv.(type) {
	case *OpaqueV:
		return e.stubResult(m.Type().(*types.Signature), r.What+"."+m.Name())
	case *IfaceV:
		if r.T == nil {
			e.goPanic("invalid memory address or nil pointer dereference (method call on nil interface)")
		}
		key := methodKey{r.T, m}
		fn, ok := e.methods[key]
		if !ok {
			fn = e.prog.LookupMethod(r.T, m.Pkg(), m.Name())
			e.methods[key] = fn
		}
		if fn == nil {
			e.unsupported("method %s not found on %s", m.Name(), r.T)
		}
		return e.call(fn, append([]Value{r.V}, args...))
	}
	e.unsupported("invoke on %T", recv)
	return nil
}

// ---------- if-conversion (speculative execution of both arms, merge at the post-dominator) ----------

func (e *Exec) tryIfConvert(f *Frame, x *ssa.If, c *Term, b *ssa.BasicBlock) (*ssa.BasicBlock, bool) {
	if e.cfg.NoIfConv || f.fi.ipdom == nil {
		return nil, false
	}
	join := f.fi.ipdom[b]
	if join == nil {
		return nil, false
	}
	if n, bad := e.noSpec[x]; bad && n >= 2 {
		return nil, false
	}
	for i, sf := range e.spec {
		if sf.stopAt == join && i != len(e.spec)-1 {
			return nil, false
		}
	}
	type armRes struct {
		sf   *specFrame
		regs []Value
		phis []Value
	}
	savedRegs := append([]Value{}, f.regs...)
	savedInstr := e.instrs
	fail := func() (*ssa.BasicBlock, bool) {
		copy(f.regs, savedRegs)
		e.instrs = savedInstr
		e.noSpec[x]++
		f.prev = nil
		return nil, false
	}
	run := func(start *ssa.BasicBlock) (res armRes, ok bool) {
		sf := &specFrame{writes: map[*Cell]Value{}, stopAt: join}
		e.spec = append(e.spec, sf)
		depth, stackLen := e.depth, len(e.stack)
		defer func() {
			e.spec = e.spec[:len(e.spec)-1]
			if r := recover(); r != nil {
				if _, is := r.(specAbort); is {
					e.depth = depth
					e.stack = e.stack[:stackLen]
					ok = false
					return
				}
				panic(r)
			}
		}()
		copy(f.regs, savedRegs)
		f.prev = b
		if start != join {
			e.runFrom(f, start, join, false)
		}
		// this arm's values for the phis of the join, taken now (later iterations of an enclosing
		// loop executed by the other arm reuse the same registers)
		var phis []Value
		for k, in := range join.Instrs {
			ph, isPhi := in.(*ssa.Phi)
			if !isPhi {
				break
			}
			if sf.hasPre {
				phis = append(phis, sf.preset[k])
				continue
			}
			pi := -1
			for i, p := range join.Preds {
				if p == f.prev {
					pi = i
				}
			}
			if pi < 0 {
				panic(specAbort{"join predecessor"})
			}
			phis = append(phis, e.get(f, ph.Edges[pi]))
		}
		return armRes{sf, append([]Value{}, f.regs...), phis}, true
	}
	rt, ok1 := run(b.Succs[0])
	if !ok1 {
		return fail()
	}
	rf, ok2 := run(b.Succs[1])
	if !ok2 {
		return fail()
	}
	mergeVal := func(vt, vf Value) (Value, bool) {
		if sameVal(vt, vf) {
			return vt, true
		}
		tt, okT := vt.(*Term)
		tf, okF := vf.(*Term)
		if okT && okF && tt.W == tf.W {
			return e.tf.Ite(c, tt, tf), true
		}
		return nil, false
	}
	// merge memory writes
	type mw struct {
		c *Cell
		v Value
	}
	var merged []mw
	seen := map[*Cell]bool{}
	for _, arm := range []*specFrame{rt.sf, rf.sf} {
		for _, cell := range arm.order {
			if seen[cell] {
				continue
			}
			seen[cell] = true
			vt, okT := rt.sf.writes[cell]
			if !okT {
				vt = e.loadCell(cell)
			}
			vf, okF := rf.sf.writes[cell]
			if !okF {
				vf = e.loadCell(cell)
			}
			v, ok := mergeVal(vt, vf)
			if !ok {
				return fail()
			}
			merged = append(merged, mw{cell, v})
		}
	}
	// merge registers that are live after the join: values defined in blocks that dominate the join
	// and were (re-)executed inside the arms (loop-carried values when the arms run different
	// numbers of iterations of an enclosing loop)
	regs := rf.regs
	for i := range regs {
		if sameVal(rt.regs[i], rf.regs[i]) {
			continue
		}
		db := f.fi.defBlock[i]
		if db == nil || db == join || !db.Dominates(join) {
			continue
		}
		if rt.regs[i] == nil || rf.regs[i] == nil {
			return fail()
		}
		v, ok := mergeVal(rt.regs[i], rf.regs[i])
		if !ok {
			return fail()
		}
		regs[i] = v
	}
	var phiVals []Value
	for k := range rt.phis {
		v, ok := mergeVal(rt.phis[k], rf.phis[k])
		if !ok {
			return fail()
		}
		phiVals = append(phiVals, v)
	}
	copy(f.regs, regs)
	for _, m := range merged {
		e.storeCell(m.c, m.v)
	}
	for k, v := range phiVals {
		f.regs[f.fi.idx[join.Instrs[k].(*ssa.Phi)]] = v
	}
	if n := len(e.spec); n > 0 && e.spec[n-1].stopAt == join {
		// inside an enclosing speculative arm that ends at the same join: hand it the merged phis
		e.spec[n-1].preset, e.spec[n-1].hasPre = phiVals, true
	}
	return join, true
}

// sameVal: identity comparison that tolerates uncomparable dynamic types.
func sameVal(a, b Value) bool {
	ta, isA := a.(TupleV)
	tb, isB := b.(TupleV)
	if isA || isB {
		if !isA || !isB || len(ta) != len(tb) {
			return false
		}
		for i := range ta {
			if !sameVal(ta[i], tb[i]) {
				return false
			}
		}
		return true
	}
	if fa, ok := a.(FloatV); ok {
		fb, ok2 := b.(FloatV)
		return ok2 && fa == fb
	}
	return a == b
}

// ---------- misc ----------

func (e *Exec) describe(v Value) string {
	switch x := v.(type) {
	case *IfaceV:
		if x.T == nil {
			return "nil"
		}
		return x.T.String() + ":" + e.describe(x.V)
	case *StrV:
		s, _ := strConc(x)
		return fmt.Sprintf("%q", s)
	case *Term:
		return x.String()
	case *PtrV:
		if x.IsNil() {
			return "nil"
		}
		if x.C != nil {
			if sv, ok := x.C.V.(*StructV); ok && len(sv.F) > 0 {
				return "&{" + e.describe(sv.F[0].V) + "…}"
			}
		}
		return "ptr"
	}
	return fmt.Sprintf("%T", v)
}

var _ = token.ADD
