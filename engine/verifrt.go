package main

// Engine side of the harness API (package rcproxy/verifrt) and path-level bookkeeping for
// assertions, known-finding classes, cover goals and observations.

import (
	"strings"

	"golang.org/x/tools/go/ssa"
)

func (e *Exec) strArg(v Value) string {
	s, ok := strConc(v.(*StrV))
	if !ok {
		e.unsupported("symbolic label")
	}
	return s
}

// pin (trace mode) constrains the input just logged to the value recorded in the witness.
func (e *Exec) pin() {
	if e.cfg.Fixed == nil {
		return
	}
	k := len(e.inputLog) - 1
	rec := e.inputLog[k]
	if k >= len(e.cfg.Fixed) || e.cfg.Fixed[k].Label != rec.Label || e.cfg.Fixed[k].Kind != rec.Kind {
		e.notes = append(e.notes, "TRACE: input "+rec.Label+"/"+rec.Kind+" is not the one recorded at this position (path diverges from the witness)")
		e.assume(e.tf.ff)
		return
	}
	fv := e.cfg.Fixed[k]
	for i, t := range rec.Terms {
		if t.IsConst() {
			continue
		}
		var v uint64
		if rec.Kind == "bytes" || rec.Kind == "byte" {
			if i >= len(fv.Bytes) {
				e.assume(e.tf.ff)
				return
			}
			v = uint64(fv.Bytes[i])
		} else {
			v = uint64(fv.Ints[i])
		}
		w := int(t.W)
		if w == 0 {
			if v != 0 {
				e.assume(t)
			} else {
				e.assume(e.tf.Not(t))
			}
			continue
		}
		e.assume(e.tf.Cmp(OEq, t, e.tf.Const(w, v&mask(w))))
	}
}

func registerVerifrt(reg func(f intrinsicFn, names ...string)) {
	const P = "rcproxy/verifrt."
	reg(func(e *Exec, fn *ssa.Function, args []Value) Value {
		t := e.fresh(e.strArg(args[0]), 8)
		e.inputLog = append(e.inputLog, InputRec{Label: e.strArg(args[0]), Kind: "byte", Terms: []*Term{t}, W: 8})
		e.pin()
		return t
	}, P+"Byte")
	reg(func(e *Exec, fn *ssa.Function, args []Value) Value {
		n := int(e.concretise(args[1].(*Term)))
		bs := make([]*Term, n)
		for i := range bs {
			bs[i] = e.fresh(e.strArg(args[0]), 8)
		}
		e.inputLog = append(e.inputLog, InputRec{Label: e.strArg(args[0]), Kind: "bytes", Terms: bs, W: 8})
		e.pin()
		if n == 0 {
			return e.newByteSlice(nil, 0)
		}
		return e.newByteSlice(bs, n)
	}, P+"Bytes")
	reg(func(e *Exec, fn *ssa.Function, args []Value) Value {
		lo, hi := args[1].(*Term), args[2].(*Term)
		if lo == hi {
			e.inputLog = append(e.inputLog, InputRec{Label: e.strArg(args[0]), Kind: "int", Terms: []*Term{lo}, W: 64})
			return lo
		}
		t := e.fresh(e.strArg(args[0]), 64)
		e.inputLog = append(e.inputLog, InputRec{Label: e.strArg(args[0]), Kind: "int", Terms: []*Term{t}, W: 64})
		e.pin()
		e.assume(e.tf.And(e.tf.Cmp(OSle, lo, t), e.tf.Cmp(OSle, t, hi)))
		return t
	}, P+"Int")
	reg(func(e *Exec, fn *ssa.Function, args []Value) Value {
		t := e.fresh(e.strArg(args[0]), 0)
		e.inputLog = append(e.inputLog, InputRec{Label: e.strArg(args[0]), Kind: "bool", Terms: []*Term{t}, W: 0})
		e.pin()
		return t
	}, P+"Bool")
	reg(func(e *Exec, fn *ssa.Function, args []Value) Value {
		n := args[1].(*Term)
		t := e.fresh(e.strArg(args[0]), 64)
		e.inputLog = append(e.inputLog, InputRec{Label: e.strArg(args[0]), Kind: "choice", Terms: []*Term{t}, W: 64})
		e.pin()
		e.assume(e.tf.And(e.tf.Cmp(OSle, e.tf.Const(64, 0), t), e.tf.Cmp(OSlt, t, n)))
		return e.tf.Const(64, uint64(e.concretiseN(t, int(e.concretise(n))+1)))
	}, P+"Choice")
	reg(func(e *Exec, fn *ssa.Function, args []Value) Value {
		e.assume(args[0].(*Term))
		return nil
	}, P+"Assume")
	reg(func(e *Exec, fn *ssa.Function, args []Value) Value {
		e.assert(args[0].(*Term), e.strArg(args[1]))
		return nil
	}, P+"Assert")
	reg(func(e *Exec, fn *ssa.Function, args []Value) Value {
		e.known = append(e.known, knownClass{e.strArg(args[0]), args[1].(*Term)})
		return nil
	}, P+"Known")
	reg(func(e *Exec, fn *ssa.Function, args []Value) Value {
		key := e.strArg(args[0])
		c := args[1].(*Term)
		if e.covers[key] || c.False() {
			return nil
		}
		if c.True() {
			e.covers[key] = true
			return nil
		}
		if e.model != nil && e.model.Eval(c) == 1 {
			e.covers[key] = true
			return nil
		}
		if r, _ := e.solver.Check(e.pc, c, false, nil); r == Sat {
			e.covers[key] = true
		}
		return nil
	}, P+"Cover")
	reg(func(e *Exec, fn *ssa.Function, args []Value) Value {
		e.goals[e.strArg(args[0])] = true
		return nil
	}, P+"Goal")
	reg(func(e *Exec, fn *ssa.Function, args []Value) Value {
		e.env.ticks = int(e.concretise(args[0].(*Term)))
		e.env.modelOnly = true
		return nil
	}, P+"SetTicks")
	reg(func(e *Exec, fn *ssa.Function, args []Value) Value {
		e.obs = append(e.obs, ObsRec{Label: e.strArg(args[0]), Kind: "int", Terms: []*Term{args[1].(*Term)}})
		return nil
	}, P+"ObserveInt")
	reg(func(e *Exec, fn *ssa.Function, args []Value) Value {
		e.obs = append(e.obs, ObsRec{Label: e.strArg(args[0]), Kind: "bool", Terms: []*Term{args[1].(*Term)}})
		return nil
	}, P+"ObserveBool")
	reg(func(e *Exec, fn *ssa.Function, args []Value) Value {
		e.obs = append(e.obs, ObsRec{Label: e.strArg(args[0]), Kind: "bytes", Terms: e.sliceBytesOrNil(args[1])})
		return nil
	}, P+"ObserveBytes")
	reg(func(e *Exec, fn *ssa.Function, args []Value) Value {
		e.obs = append(e.obs, ObsRec{Label: e.strArg(args[0]), Kind: "bytes", Terms: args[1].(*StrV).B})
		return nil
	}, P+"ObserveStr")
	reg(func(e *Exec, fn *ssa.Function, args []Value) Value { return e.tf.And(args[0].(*Term), args[1].(*Term)) }, P+"And")
	reg(func(e *Exec, fn *ssa.Function, args []Value) Value { return e.tf.Or(args[0].(*Term), args[1].(*Term)) }, P+"Or")
	reg(func(e *Exec, fn *ssa.Function, args []Value) Value { return e.tf.Not(args[0].(*Term)) }, P+"Not")
	reg(func(e *Exec, fn *ssa.Function, args []Value) Value {
		return e.tf.Or(e.tf.Not(args[0].(*Term)), args[1].(*Term))
	}, P+"Implies")
	reg(func(e *Exec, fn *ssa.Function, args []Value) Value {
		return e.tf.Ite(args[0].(*Term), args[1].(*Term), args[2].(*Term))
	}, P+"Ite", P+"IteByte", P+"IteU32", P+"IteBool")
	reg(func(e *Exec, fn *ssa.Function, args []Value) Value {
		return e.tf.Const(64, uint64(e.concretise(args[0].(*Term))))
	}, P+"Concretize")
	reg(func(e *Exec, fn *ssa.Function, args []Value) Value {
		ms := e.concretise(args[0].(*Term))
		e.env.clockNs += ms * 1000000
		return nil
	}, P+"Sleep")
	reg(func(e *Exec, fn *ssa.Function, args []Value) Value { return e.tf.tt }, P+"Symbolic")
	reg(func(e *Exec, fn *ssa.Function, args []Value) Value { return nil }, P+"Register")
	reg(func(e *Exec, fn *ssa.Function, args []Value) Value { return e.strLit("/verifrt-tmp") }, P+"TempDir")
	reg(func(e *Exec, fn *ssa.Function, args []Value) Value {
		// LimitWrites(fd, n): from now on writes to fd accept at most n more bytes (model-only)
		fd := e.fdOf(args[0])
		n := int(e.concretise(args[1].(*Term)))
		if fd != nil {
			if n < 0 {
				fd.limited = false
			} else {
				fd.limited, fd.wlimit = true, n
				e.env.shortWriteUsed = true
			}
		}
		return nil
	}, P+"LimitWrites")
	reg(func(e *Exec, fn *ssa.Function, args []Value) Value {
		// WantsWrite(fd): is the descriptor registered with the poller for writable events (EPOLLOUT)?
		fd := e.fdOf(args[0])
		return e.tf.Bool(fd != nil && !fd.closed && fd.registered && fd.events&0x4 != 0)
	}, P+"WantsWrite")
	reg(func(e *Exec, fn *ssa.Function, args []Value) Value {
		e.notes = append(e.notes, e.strArg(args[0]))
		return nil
	}, P+"Note")
	reg(func(e *Exec, fn *ssa.Function, args []Value) Value {
		// Ready(fd) -> epoll-style readiness mask for fd under the socket model: bit0 readable, bit2 writable
		fd := e.fdOf(args[0])
		var m uint64
		if fd != nil && !fd.closed && fd.registered {
			if fd.events&0x1 != 0 && (len(fd.rx) > 0 || fd.peerClosed) {
				m |= 1
			}
			if fd.events&0x4 != 0 && (!fd.limited || fd.wlimit > 0) {
				m |= 4
			}
		}
		return e.tf.Const(64, m)
	}, P+"Ready")
	reg(func(e *Exec, fn *ssa.Function, args []Value) Value {
		panic(pathEnd{"exit", "harness stop"})
	}, P+"Stop")
}

func (e *Exec) assume(c *Term) {
	if c.True() {
		return
	}
	if c.False() {
		panic(pathEnd{"infeasible", "assume(false)"})
	}
	if e.model != nil && e.model.Eval(c) == 1 {
		e.addPC(c)
		return
	}
	if e.pos < len(e.prefix) {
		// replaying: feasibility was established by the run that created the prefix
		e.addPC(c)
		return
	}
	r, m := e.solver.Check(e.pc, c, false, e.inputs)
	switch r {
	case Unsat:
		panic(pathEnd{"infeasible", "assume"})
	case Unknown:
		panic(pathEnd{"unsupported", "solver unknown at assume"})
	}
	e.addPC(c)
	e.model = NewModel(m)
}

// listedKnown returns the known classes of this path applicable to a violation id.
func (e *Exec) listedKnown(violID, site string) []knownClass {
	var out []knownClass
	for _, k := range e.known {
		kf, ok := e.cfg.Known[k.id]
		if !ok {
			continue
		}
		if kf.Assert != "" && kf.Assert != violID {
			continue
		}
		if kf.Site != "" && !strings.Contains(site, kf.Site) {
			continue
		}
		out = append(out, k)
	}
	return out
}

func (e *Exec) assert(c *Term, id string) {
	if c.True() {
		return
	}
	if e.pos < len(e.prefix) {
		// replaying a prefix: this assertion was already discharged by the run that forked here
		if c.False() {
			panic(pathEnd{"assertfail", id})
		}
		e.addPC(c)
		return
	}
	e.nAsserts++
	neg := e.tf.Not(c)
	kn := e.listedKnown(id, "")
	excl := e.tf.tt
	for _, k := range kn {
		excl = e.tf.And(excl, e.tf.Not(k.cond))
	}
	r, m := e.solver.Check(e.pc, e.tf.And(neg, excl), true, e.inputs)
	switch r {
	case Sat:
		e.viols = append(e.viols, ViolRec{ID: id, Kind: "assert", Model: m, PC: len(e.pc), Stack: e.where()})
	case Unknown:
		e.viols = append(e.viols, ViolRec{ID: id, Kind: "unknown", Detail: "solver unknown/timeout on assertion query", Stack: e.where()})
	case Unsat:
		if len(kn) > 0 {
			r2, m2 := e.solver.Check(e.pc, neg, true, e.inputs)
			if r2 == Sat {
				mm := NewModel(m2)
				kid := kn[0].id
				for _, k := range kn {
					if mm.Eval(k.cond) == 1 {
						kid = k.id
						break
					}
				}
				e.viols = append(e.viols, ViolRec{ID: id, Kind: "assert", Known: kid, Model: m2, PC: len(e.pc), Stack: e.where()})
			} else if r2 == Unknown {
				e.viols = append(e.viols, ViolRec{ID: id, Kind: "unknown", Detail: "solver unknown/timeout on assertion query", Stack: e.where()})
			}
		}
	}
	if c.False() {
		panic(pathEnd{"assertfail", id})
	}
	// continue under the assumption that the assertion holds
	rr, mm := e.solver.Check(e.pc, c, false, e.inputs)
	if rr != Sat {
		panic(pathEnd{"assertfail", id})
	}
	e.addPC(c)
	e.model = NewModel(mm)
}
