package main

import (
	"fmt"
	"os"
	"path/filepath"
	"strings"
	"time"

	"golang.org/x/tools/go/packages"
	"golang.org/x/tools/go/ssa"
	"golang.org/x/tools/go/ssa/ssautil"
)

func envOr(k, d string) string {
	if v := os.Getenv(k); v != "" {
		return v
	}
	return d
}

var (
	repoRoot  = envOr("VERIF_REPO", "/repo")
	verifHome = envOr("VERIF_HOME", "/verif")
	// evidence and replay files go here (seed-matrix runs against scratch worktrees set it to a scratch directory)
	outHome = envOr("VERIF_OUTDIR", envOr("VERIF_HOME", "/verif"))
)

// overlayFiles maps virtual paths inside the repository to harness sources under /verif/harness/tree.
// genOverlay holds files generated at check time (virtual path -> real temp path).
var genOverlay = map[string]string{}

var genDir string

// genDocCommands parses docs/command.md (rows marked Yes) into a Go source file of package codec.
func genDocCommands() {
	b, err := os.ReadFile(filepath.Join(repoRoot, "docs", "command.md"))
	if err != nil {
		fatalf(2, "docs/command.md: %v", err)
	}
	seen := map[string]bool{}
	var names []string
	for _, line := range strings.Split(string(b), "\n") {
		f := strings.Split(line, "|")
		if len(f) < 4 {
			continue
		}
		name, sup := strings.ToLower(strings.TrimSpace(f[1])), strings.TrimSpace(f[2])
		if sup != "Yes" || name == "" || strings.ContainsAny(name, " :-") {
			continue
		}
		if !seen[name] {
			seen[name] = true
			names = append(names, name)
		}
	}
	if genDir == "" {
		genDir, _ = os.MkdirTemp("", "gosym-gen-")
	}
	var sb strings.Builder
	sb.WriteString("//go:build verif\n\npackage codec\n\n// generated from docs/command.md at check time\nvar verifDocYes = []string{")
	for _, n := range names {
		fmt.Fprintf(&sb, "%q, ", n)
	}
	sb.WriteString("}\n")
	p := filepath.Join(genDir, "zz_verif_docgen.go")
	os.WriteFile(p, []byte(sb.String()), 0o644)
	genOverlay[filepath.Join(repoRoot, "core", "codec", "zz_verif_docgen.go")] = p
}

func cleanupGen() {
	if genDir != "" {
		os.RemoveAll(genDir)
	}
}

func overlayFiles() map[string]string {
	root := filepath.Join(verifHome, "harness", "tree")
	m := map[string]string{}
	for k, v := range genOverlay {
		m[k] = v
	}
	filepath.Walk(root, func(p string, info os.FileInfo, err error) error {
		if err != nil || info.IsDir() || !strings.HasSuffix(p, ".go") {
			return nil
		}
		rel, _ := filepath.Rel(root, p)
		m[filepath.Join(repoRoot, rel)] = p
		return nil
	})
	return m
}

func goEnv() []string {
	env := os.Environ()
	env = append(env, "GOFLAGS=-mod=mod", "GOPROXY=off", "GOSUMDB=off", "GOTOOLCHAIN=local")
	return env
}

func loadProgram(patterns ...string) (*ssa.Program, time.Duration) {
	t0 := time.Now()
	ov := map[string][]byte{}
	for virt, realp := range overlayFiles() {
		if strings.HasSuffix(virt, "_test.go") {
			continue
		}
		b, err := os.ReadFile(realp)
		if err != nil {
			fatalf(2, "read %s: %v", realp, err)
		}
		ov[virt] = b
	}
	cfg := &packages.Config{Mode: packages.LoadAllSyntax, Dir: repoRoot, Overlay: ov, BuildFlags: []string{"-tags=verif"}, Env: goEnv()}
	pkgs, err := packages.Load(cfg, patterns...)
	if err != nil {
		fatalf(2, "load: %v", err)
	}
	nerr := 0
	packages.Visit(pkgs, nil, func(p *packages.Package) {
		for _, e := range p.Errors {
			fmt.Fprintf(os.Stderr, "load error: %s: %v\n", p.PkgPath, e)
			nerr++
		}
	})
	if nerr > 0 {
		fatalf(2, "harness or repository does not type-check (%d errors)", nerr)
	}
	prog, _ := ssautil.AllPackages(pkgs, ssa.InstantiateGenerics)
	prog.Build()
	return prog, time.Since(t0)
}
