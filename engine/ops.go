package main

import (
	"fmt"
	"go/token"
	"go/types"
	"math"
	"unicode/utf8"

	"golang.org/x/tools/go/ssa"
)

var stdSizes = types.StdSizes{WordSize: 8, MaxAlign: 8}

// ---------- equality ----------

func (e *Exec) eq(a, b Value) *Term {
	switch x := a.(type) {
	case *Term:
		y, ok := b.(*Term)
		if !ok {
			return e.tf.ff
		}
		return e.tf.Cmp(OEq, x, y)
	case FloatV:
		return e.tf.Bool(x == b.(FloatV))
	case *StrV:
		y := b.(*StrV)
		if len(x.B) != len(y.B) {
			return e.tf.ff
		}
		r := e.tf.tt
		for i := range x.B {
			r = e.tf.And(r, e.tf.Cmp(OEq, x.B[i], y.B[i]))
			if r.False() {
				return r
			}
		}
		return r
	case *PtrV:
		switch y := b.(type) {
		case *PtrV:
			if x.SymI != nil || y.SymI != nil {
				e.unsupported("comparison of symbolic element pointers")
			}
			return e.tf.Bool(x.C == y.C)
		case *OpaqueV:
			return e.tf.ff
		}
		return e.tf.ff
	case *IfaceV:
		switch y := b.(type) {
		case *IfaceV:
			if x.T == nil || y.T == nil {
				return e.tf.Bool(x.T == nil && y.T == nil)
			}
			if !types.Identical(x.T, y.T) {
				return e.tf.ff
			}
			return e.eq(x.V, y.V)
		case *OpaqueV:
			return e.tf.ff
		}
		return e.tf.ff
	case *OpaqueV:
		if y, ok := b.(*OpaqueV); ok {
			return e.tf.Bool(x == y)
		}
		return e.tf.ff
	case *FuncV:
		y, _ := b.(*FuncV)
		if y == nil {
			return e.tf.ff
		}
		return e.tf.Bool(x.IsNil() && y.IsNil())
	case *MapV:
		y, _ := b.(*MapV)
		if y == nil {
			return e.tf.ff
		}
		return e.tf.Bool((x.Nil && y.Nil) || x == y)
	case *ChanV:
		y, _ := b.(*ChanV)
		if y == nil {
			return e.tf.ff
		}
		return e.tf.Bool((x.Nil && y.Nil) || x == y)
	case *SliceV:
		y, _ := b.(*SliceV)
		if y == nil {
			return e.tf.ff
		}
		return e.tf.Bool(x.Arr == nil && y.Arr == nil)
	case *StructV:
		y := b.(*StructV)
		r := e.tf.tt
		for i := range x.F {
			r = e.tf.And(r, e.eq(e.loadCell(x.F[i]), e.loadCell(y.F[i])))
		}
		return r
	case *ArrV:
		y := b.(*ArrV)
		r := e.tf.tt
		for i := range x.Cells {
			r = e.tf.And(r, e.eq(e.loadCell(x.Cells[i]), e.loadCell(y.Cells[i])))
		}
		return r
	}
	e.unsupported("eq on %T", a)
	return nil
}

func (e *Exec) binop(op token.Token, a, b Value, t types.Type) Value {
	switch x := a.(type) {
	case *Term:
		y, ok := b.(*Term)
		if !ok {
			e.unsupported("binop %s on Term and %T", op, b)
		}
		return e.binTerm(op, x, y, t)
	case FloatV:
		y := b.(FloatV)
		switch op {
		case token.ADD:
			return x + y
		case token.SUB:
			return x - y
		case token.MUL:
			return x * y
		case token.QUO:
			return x / y
		case token.EQL:
			return e.tf.Bool(x == y)
		case token.NEQ:
			return e.tf.Bool(x != y)
		case token.LSS:
			return e.tf.Bool(x < y)
		case token.LEQ:
			return e.tf.Bool(x <= y)
		case token.GTR:
			return e.tf.Bool(x > y)
		case token.GEQ:
			return e.tf.Bool(x >= y)
		}
	case *StrV:
		y := b.(*StrV)
		switch op {
		case token.ADD:
			n := make([]*Term, 0, len(x.B)+len(y.B))
			n = append(append(n, x.B...), y.B...)
			return &StrV{n}
		case token.EQL:
			return e.eq(x, y)
		case token.NEQ:
			return e.tf.Not(e.eq(x, y))
		case token.LSS, token.LEQ, token.GTR, token.GEQ:
			return e.strOrder(op, x, y)
		}
	}
	switch op {
	case token.EQL:
		return e.eq(a, b)
	case token.NEQ:
		return e.tf.Not(e.eq(a, b))
	}
	e.unsupported("binop %s on %T", op, a)
	return nil
}

func (e *Exec) strOrder(op token.Token, x, y *StrV) *Term {
	// lexicographic: build from the end
	f := e.tf
	n := len(x.B)
	if len(y.B) < n {
		n = len(y.B)
	}
	// lt: x<y ; eq: x==y on common prefix handled by final length compare
	var lt, gt *Term
	if len(x.B) < len(y.B) {
		lt, gt = f.tt, f.ff
	} else if len(x.B) > len(y.B) {
		lt, gt = f.ff, f.tt
	} else {
		lt, gt = f.ff, f.ff
	}
	for i := n - 1; i >= 0; i-- {
		l := f.Cmp(OUlt, x.B[i], y.B[i])
		g := f.Cmp(OUlt, y.B[i], x.B[i])
		lt = f.Or(l, f.And(f.Not(g), lt))
		gt = f.Or(g, f.And(f.Not(l), gt))
	}
	switch op {
	case token.LSS:
		return lt
	case token.GTR:
		return gt
	case token.LEQ:
		return f.Not(gt)
	default:
		return f.Not(lt)
	}
}

func (e *Exec) binTerm(op token.Token, x, y *Term, t types.Type) Value {
	f := e.tf
	_, signed := widthOf(t)
	if x.W == 0 {
		switch op {
		case token.EQL:
			return f.Cmp(OEq, x, y)
		case token.NEQ:
			return f.Not(f.Cmp(OEq, x, y))
		case token.AND, token.LAND:
			return f.And(x, y)
		case token.OR, token.LOR:
			return f.Or(x, y)
		}
		e.unsupported("bool op %s", op)
	}
	if op == token.SHL || op == token.SHR {
		w := int(x.W)
		if int(y.W) != w {
			if int(y.W) < w {
				y = f.ZExt(y, w)
			} else {
				big := f.Cmp(OUle, f.Const(int(y.W), uint64(w)), y)
				y = f.Ite(big, f.Const(w, uint64(w)), f.Trunc(y, w))
			}
		}
		if op == token.SHL {
			return f.Bin(OShl, x, y)
		}
		if signed {
			return f.Bin(OAshr, x, y)
		}
		return f.Bin(OLshr, x, y)
	}
	if x.W != y.W {
		e.unsupported("binop width mismatch %s: %d vs %d", op, x.W, y.W)
	}
	switch op {
	case token.ADD:
		return f.Bin(OAdd, x, y)
	case token.SUB:
		return f.Bin(OSub, x, y)
	case token.MUL:
		return f.Bin(OMul, x, y)
	case token.AND:
		return f.Bin(OBAnd, x, y)
	case token.OR:
		return f.Bin(OBOr, x, y)
	case token.XOR:
		return f.Bin(OBXor, x, y)
	case token.AND_NOT:
		return f.Bin(OBAnd, x, f.Bin(OBXor, y, f.Const(int(y.W), mask(int(y.W)))))
	case token.REM, token.QUO:
		if !e.branch(f.Not(f.Cmp(OEq, y, f.Const(int(y.W), 0)))) {
			e.goPanic("runtime error: integer divide by zero")
		}
		if op == token.REM {
			if signed {
				return f.Bin(OSrem, x, y)
			}
			return f.Bin(OUrem, x, y)
		}
		if signed {
			return f.Bin(OSdiv, x, y)
		}
		return f.Bin(OUdiv, x, y)
	case token.EQL:
		return f.Cmp(OEq, x, y)
	case token.NEQ:
		return f.Not(f.Cmp(OEq, x, y))
	case token.LSS:
		if signed {
			return f.Cmp(OSlt, x, y)
		}
		return f.Cmp(OUlt, x, y)
	case token.LEQ:
		if signed {
			return f.Cmp(OSle, x, y)
		}
		return f.Cmp(OUle, x, y)
	case token.GTR:
		if signed {
			return f.Cmp(OSlt, y, x)
		}
		return f.Cmp(OUlt, y, x)
	case token.GEQ:
		if signed {
			return f.Cmp(OSle, y, x)
		}
		return f.Cmp(OUle, y, x)
	}
	e.unsupported("binop %s", op)
	return nil
}

func (e *Exec) unop(x *ssa.UnOp, a Value) Value {
	switch x.Op {
	case token.MUL:
		return e.load(a)
	case token.NOT:
		return e.tf.Not(a.(*Term))
	case token.SUB:
		if fv, ok := a.(FloatV); ok {
			return -fv
		}
		t := a.(*Term)
		return e.tf.Bin(OSub, e.tf.Const(int(t.W), 0), t)
	case token.XOR:
		t := a.(*Term)
		return e.tf.Bin(OBXor, t, e.tf.Const(int(t.W), mask(int(t.W))))
	case token.ARROW:
		if len(e.spec) > 0 {
			panic(specAbort{"recv"})
		}
		ch, isCh := a.(*ChanV)
		if !isCh {
			panic(pathEnd{"blocked", "receive on opaque channel"})
		}
		if len(ch.Buf) == 0 && ch.Closed {
			z := e.zero(x.X.Type().Underlying().(*types.Chan).Elem())
			if x.CommaOk {
				return TupleV{z, e.tf.ff}
			}
			return z
		}
		if ch.Nil || len(ch.Buf) == 0 {
			panic(pathEnd{"blocked", "receive on empty channel"})
		}
		v := ch.Buf[0]
		ch.Buf = ch.Buf[1:]
		if x.CommaOk {
			return TupleV{v, e.tf.tt}
		}
		return v
	}
	e.unsupported("unop %s", x.Op)
	return nil
}

func (e *Exec) load(a Value) Value {
	p, ok := a.(*PtrV)
	if !ok {
		e.unsupported("load through %T", a)
	}
	if p.C != nil {
		return copyVal(e.loadCell(p.C))
	}
	if p.Arr == nil {
		e.goPanic("runtime error: invalid memory address or nil pointer dereference")
	}
	return e.muxRead(p.Arr.Cells[p.Base:p.Base+p.N], p.SymI)
}

func (e *Exec) store(addr Value, v Value) {
	p, ok := addr.(*PtrV)
	if !ok {
		e.unsupported("store through %T", addr)
	}
	if p.Rep {
		e.unsupported("store through class-representative pointer")
	}
	if p.C != nil {
		e.storeCell(p.C, copyVal(v))
		return
	}
	if p.Arr == nil {
		e.goPanic("runtime error: invalid memory address or nil pointer dereference")
	}
	nv, ok := v.(*Term)
	if !ok {
		e.unsupported("symbolic-index store of %T", v)
	}
	iw := int(p.SymI.W)
	for k := 0; k < p.N; k++ {
		c := p.Arr.Cells[p.Base+k]
		old := e.loadCell(c).(*Term)
		e.storeCell(c, e.tf.Ite(e.tf.Cmp(OEq, p.SymI, e.tf.Const(iw, uint64(k))), nv, old))
	}
}

// muxRead builds a multiplexer over the bits of idx (idx known to be in range).
func (e *Exec) muxRead(cells []*Cell, idx *Term) Value {
	n := len(cells)
	vals := make([]*Term, n)
	for i, c := range cells {
		t, ok := e.loadCell(c).(*Term)
		if !ok {
			e.unsupported("symbolic index into non-scalar array")
		}
		vals[i] = t
	}
	return e.muxTerms(vals, idx)
}

func (e *Exec) muxTerms(vals []*Term, idx *Term) *Term {
	bits := log2ceil(len(vals))
	var rec func(bit, base int) *Term
	rec = func(bit, base int) *Term {
		if base >= len(vals) {
			return vals[len(vals)-1]
		}
		if bit < 0 {
			return vals[base]
		}
		hi := rec(bit-1, base+(1<<uint(bit)))
		lo := rec(bit-1, base)
		return e.tf.Ite(e.tf.Bit(idx, bit), hi, lo)
	}
	return rec(bits-1, 0)
}

func (e *Exec) fieldAddr(p Value, field int) Value {
	pv, ok := p.(*PtrV)
	if !ok {
		e.unsupported("field of %T", p)
	}
	if pv.C == nil {
		if pv.Arr != nil {
			e.unsupported("field of symbolic element pointer")
		}
		e.goPanic("runtime error: invalid memory address or nil pointer dereference")
	}
	sv, ok := e.loadCell(pv.C).(*StructV)
	if !ok {
		e.unsupported("FieldAddr on non-struct %T", pv.C.V)
	}
	return &PtrV{C: sv.F[field], Rep: pv.Rep}
}

func (e *Exec) inBounds(i *Term, n int) *Term {
	// 0 <= i < n for signed i of any width; unsigned indices are never negative but the
	// signed test on a zero-extended value is equivalent for n < 2^62.
	w := int(i.W)
	return e.tf.And(e.tf.Cmp(OSle, e.tf.Const(w, 0), i), e.tf.Cmp(OSlt, i, e.tf.Const(w, uint64(n))))
}

func (e *Exec) idx64(f *Frame, v ssa.Value) *Term {
	t := e.get(f, v).(*Term)
	if t.W == 64 {
		return t
	}
	_, signed := widthOf(v.Type())
	if signed {
		return e.tf.SExt(t, 64)
	}
	return e.tf.ZExt(t, 64)
}

func (e *Exec) indexAddr(x Value, i *Term, xt types.Type) Value {
	var cells []*Cell
	var arr *ArrV
	base := 0
	switch s := x.(type) {
	case *SliceV:
		if s.Arr != nil {
			arr, base = s.Arr, s.Off
			cells = s.Arr.Cells[s.Off : s.Off+s.Len]
		}
	case *PtrV:
		if s.C == nil {
			e.goPanic("runtime error: invalid memory address or nil pointer dereference")
		}
		a, ok := e.loadCell(s.C).(*ArrV)
		if !ok {
			e.unsupported("IndexAddr on pointer to %T", s.C.V)
		}
		arr, cells = a, a.Cells
	default:
		e.unsupported("IndexAddr on %T", x)
	}
	if i.W != 64 {
		i = e.tf.SExt(i, 64) // callers pass typed value; small unsigned widths only matter for huge arrays
	}
	if i.IsConst() {
		k := i.S64()
		if k < 0 || k >= int64(len(cells)) {
			e.goPanic(fmt.Sprintf("runtime error: index out of range [%d] with length %d", k, len(cells)))
		}
		return &PtrV{C: cells[k]}
	}
	if !e.branch(e.inBounds(i, len(cells))) {
		e.goPanic(fmt.Sprintf("runtime error: index out of range [symbolic] with length %d", len(cells)))
	}
	if len(cells) == 1 {
		return &PtrV{C: cells[0]}
	}
	if _, scalar := e.loadCell(cells[0]).(*Term); scalar {
		return &PtrV{Arr: arr, Base: base, N: len(cells), SymI: i}
	}
	// non-scalar elements: fork per class of identical stored values
	return &PtrV{C: cells[e.classFork(cells, i)], Rep: true}
}

// classFork groups cells by identical content and forks over the feasible groups; returns the
// index of a representative cell of the chosen group (the index is constrained to the group).
func (e *Exec) classFork(cells []*Cell, i *Term) int {
	type group struct {
		rep  int
		ivs  [][2]int
		last Value
	}
	var groups []*group
	byVal := map[Value]*group{}
	for k, c := range cells {
		v := e.loadCell(c)
		var key Value = v
		if p, ok := v.(*PtrV); ok {
			if p.SymI != nil {
				e.unsupported("class fork over symbolic pointers")
			}
			key = p.C // identity of target (nil for nil pointers)
			if p.C == nil {
				key = "nil"
			}
		}
		g := byVal[key]
		if g == nil {
			g = &group{rep: k}
			byVal[key] = g
			groups = append(groups, g)
		}
		if n := len(g.ivs); n > 0 && g.ivs[n-1][1] == k-1 {
			g.ivs[n-1][1] = k
		} else {
			g.ivs = append(g.ivs, [2]int{k, k})
		}
	}
	if len(groups) > 64 {
		e.unsupported("class fork over %d classes", len(groups))
	}
	conds := make([]*Term, len(groups))
	w := int(i.W)
	for gi, g := range groups {
		c := e.tf.ff
		for _, iv := range g.ivs {
			c = e.tf.Or(c, e.tf.And(e.tf.Cmp(OSle, e.tf.Const(w, uint64(iv[0])), i), e.tf.Cmp(OSle, i, e.tf.Const(w, uint64(iv[1])))))
		}
		conds[gi] = c
	}
	return groups[e.choose('p', conds)].rep
}

func (e *Exec) index(x Value, i *Term) Value {
	if i.W != 64 {
		i = e.tf.SExt(i, 64)
	}
	switch s := x.(type) {
	case *StrV:
		if i.IsConst() {
			k := i.S64()
			if k < 0 || k >= int64(len(s.B)) {
				e.goPanic(fmt.Sprintf("runtime error: index out of range [%d] with length %d", k, len(s.B)))
			}
			return s.B[k]
		}
		if !e.branch(e.inBounds(i, len(s.B))) {
			e.goPanic(fmt.Sprintf("runtime error: index out of range [symbolic] with length %d", len(s.B)))
		}
		return e.muxTerms(s.B, i)
	case *ArrV:
		if i.IsConst() {
			k := i.S64()
			if k < 0 || k >= int64(len(s.Cells)) {
				e.goPanic(fmt.Sprintf("runtime error: index out of range [%d] with length %d", k, len(s.Cells)))
			}
			return copyVal(e.loadCell(s.Cells[k]))
		}
		if !e.branch(e.inBounds(i, len(s.Cells))) {
			e.goPanic("runtime error: index out of range")
		}
		return e.muxRead(s.Cells, i)
	}
	e.unsupported("Index on %T", x)
	return nil
}

func (e *Exec) sliceOp(f *Frame, x *ssa.Slice) Value {
	base := e.get(f, x.X)
	var off, ln, cp int
	var arr *ArrV
	var str *StrV
	switch s := base.(type) {
	case *StrV:
		str, ln, cp = s, len(s.B), len(s.B)
	case *SliceV:
		arr, off, ln, cp = s.Arr, s.Off, s.Len, s.Cap
	case *PtrV:
		if s.C == nil {
			e.goPanic("runtime error: invalid memory address or nil pointer dereference")
		}
		a, isArr := e.loadCell(s.C).(*ArrV)
		if !isArr {
			// unsafe reinterpretation of a scalar as a byte array (little endian); a copy, not an alias
			t, isT := e.loadCell(s.C).(*Term)
			if !isT || t.W < 8 {
				e.unsupported("slice of pointer to %T", s.C.V)
			}
			var bs []*Term
			for k := 0; k < int(t.W)/8; k++ {
				bs = append(bs, e.tf.Trunc(e.tf.Bin(OLshr, t, e.tf.Const(int(t.W), uint64(8*k))), 8))
			}
			a = e.newByteSlice(bs, len(bs)).Arr
		}
		arr, off, ln, cp = a, 0, len(a.Cells), len(a.Cells)
	default:
		e.unsupported("slice base %T", base)
	}
	f64 := e.tf
	lo, hi, mx := f64.Const(64, 0), f64.Const(64, uint64(ln)), f64.Const(64, uint64(cp))
	if x.Low != nil {
		lo = e.idx64(f, x.Low)
	}
	if x.High != nil {
		hi = e.idx64(f, x.High)
	}
	if x.Max != nil {
		mx = e.idx64(f, x.Max)
	}
	limit := cp
	if str != nil {
		limit = ln
	}
	if !lo.IsConst() || !hi.IsConst() || !mx.IsConst() {
		ok := f64.And(f64.Cmp(OSle, f64.Const(64, 0), lo), f64.And(f64.Cmp(OSle, lo, hi), f64.And(f64.Cmp(OSle, hi, mx), f64.Cmp(OSle, mx, f64.Const(64, uint64(limit))))))
		if !e.branch(ok) {
			e.goPanic("runtime error: slice bounds out of range [symbolic]")
		}
	}
	l, h, m := e.concretise(lo), e.concretise(hi), e.concretise(mx)
	if l < 0 || h < l || m < h || m > int64(limit) {
		e.goPanic(fmt.Sprintf("runtime error: slice bounds out of range [%d:%d:%d] with capacity %d", l, h, m, limit))
	}
	if str != nil {
		return &StrV{str.B[l:h]}
	}
	if arr == nil {
		return &SliceV{}
	}
	return &SliceV{Arr: arr, Off: off + int(l), Len: int(h - l), Cap: int(m - l)}
}

func (e *Exec) makeSlice(x *ssa.MakeSlice, ln, cp *Term) Value {
	f := e.tf
	if !ln.IsConst() || !cp.IsConst() {
		ok := f.And(f.Cmp(OSle, f.Const(64, 0), ln), f.And(f.Cmp(OSle, ln, cp), f.Cmp(OSle, cp, f.Const(64, 1<<32))))
		if !e.branch(ok) {
			e.goPanic("runtime error: makeslice: len out of range")
		}
	}
	l, c := e.concretise(ln), e.concretise(cp)
	if l < 0 || c < l || c > 1<<32 {
		e.goPanic("runtime error: makeslice: len out of range")
	}
	if c > int64(e.cfg.MaxAlloc) {
		panic(pathEnd{"bound", fmt.Sprintf("make of %d elements exceeds MaxAlloc", c)})
	}
	et := x.Type().Underlying().(*types.Slice).Elem()
	return &SliceV{Arr: e.newArr(et, int(c)), Off: 0, Len: int(l), Cap: int(c)}
}

func (e *Exec) newArr(et types.Type, n int) *ArrV {
	a := &ArrV{Cells: make([]*Cell, n)}
	cs := make([]Cell, n)
	if w, _ := widthOf(et); w >= 0 {
		z := e.tf.Const(w, 0)
		for i := range cs {
			cs[i].V = z
			a.Cells[i] = &cs[i]
		}
		return a
	}
	for i := range cs {
		cs[i].V = e.zero(et)
		a.Cells[i] = &cs[i]
	}
	return a
}

func (e *Exec) typeAssert(x *ssa.TypeAssert, v Value) Value {
	if op, ok := v.(*OpaqueV); ok {
		if x.CommaOk {
			return TupleV{e.zero(x.AssertedType), e.tf.ff}
		}
		_ = op
		e.unsupported("type assertion on opaque value")
	}
	iv := v.(*IfaceV)
	ok := false
	if iv.T != nil {
		if it, isI := x.AssertedType.Underlying().(*types.Interface); isI {
			ok = types.Implements(iv.T, it)
		} else {
			ok = types.Identical(iv.T, x.AssertedType)
		}
	}
	_, toIface := x.AssertedType.Underlying().(*types.Interface)
	var res Value
	if ok {
		if toIface {
			res = iv
		} else {
			res = copyVal(iv.V)
		}
	} else {
		res = e.zero(x.AssertedType)
	}
	if x.CommaOk {
		return TupleV{res, e.tf.Bool(ok)}
	}
	if !ok {
		e.goPanic(fmt.Sprintf("interface conversion: interface is %v, not %s", iv.T, x.AssertedType))
	}
	return res
}

// ---------- maps ----------

func concKey(k Value) (string, bool) {
	switch x := k.(type) {
	case *Term:
		if x.IsConst() {
			return fmt.Sprintf("i%d", x.C), true
		}
	case *StrV:
		if s, ok := strConc(x); ok {
			return "s" + s, true
		}
	case *PtrV:
		if x.SymI == nil {
			return fmt.Sprintf("p%p", x.C), true
		}
	case *IfaceV:
		if x.T == nil {
			return "nil", true
		}
		if s, ok := concKey(x.V); ok {
			return x.T.String() + "|" + s, true
		}
	}
	return "", false
}

// mapFind returns the entry equal to k (forking when symbolic) or nil.
func (e *Exec) mapFind(m *MapV, k Value) *MapEntry {
	if ck, ok := concKey(k); ok {
		if ent, ok := m.index[ck]; ok && !ent.deleted {
			return ent
		}
		// might still equal a symbolic-keyed entry
	}
	var cands []*MapEntry
	var conds []*Term
	none := e.tf.tt
	for _, ent := range m.Entries {
		if ent.deleted {
			continue
		}
		c := e.eq(k, ent.K)
		if c.False() {
			continue
		}
		if c.True() {
			return ent
		}
		cands = append(cands, ent)
		conds = append(conds, c)
		none = e.tf.And(none, e.tf.Not(c))
	}
	if len(cands) == 0 {
		return nil
	}
	conds = append(conds, none)
	i := e.choose('k', conds)
	if i == len(cands) {
		return nil
	}
	return cands[i]
}

func (e *Exec) lookup(x *ssa.Lookup, mv Value, k Value) Value {
	switch m := mv.(type) {
	case *StrV:
		return e.index(m, k.(*Term))
	case *MapV:
		var ent *MapEntry
		if !m.Nil {
			ent = e.mapFind(m, k)
		}
		var v Value
		if ent != nil {
			v = copyVal(ent.V)
		} else {
			v = e.zero(m.VT)
		}
		if x.CommaOk {
			return TupleV{v, e.tf.Bool(ent != nil)}
		}
		return v
	case *OpaqueV:
		if x.CommaOk {
			return TupleV{&OpaqueV{m.What}, e.tf.ff}
		}
		return &OpaqueV{m.What}
	}
	e.unsupported("lookup on %T", mv)
	return nil
}

func (e *Exec) mapUpdate(mv Value, k Value, v Value) {
	m, ok := mv.(*MapV)
	if !ok {
		e.unsupported("map update on %T", mv)
	}
	if m.Nil {
		e.goPanic("assignment to entry in nil map")
	}
	if ent := e.mapFind(m, k); ent != nil {
		ent.V = v
		return
	}
	ent := &MapEntry{K: copyVal(k), V: v}
	m.Entries = append(m.Entries, ent)
	m.live++
	if ck, ok := concKey(k); ok {
		m.index[ck] = ent
	}
}

func (e *Exec) mapDelete(m *MapV, k Value) {
	if m.Nil {
		return
	}
	if ent := e.mapFind(m, k); ent != nil {
		ent.deleted = true
		m.live--
		if ck, ok := concKey(ent.K); ok {
			delete(m.index, ck)
		}
		// compact occasionally
		if len(m.Entries) > 2*m.live+8 {
			var ne []*MapEntry
			for _, x := range m.Entries {
				if !x.deleted {
					ne = append(ne, x)
				}
			}
			m.Entries = ne
		}
	}
}

func permutations(n int) [][]int {
	if n == 0 {
		return [][]int{{}}
	}
	var res [][]int
	var rec func(cur []int, used int)
	rec = func(cur []int, used int) {
		if len(cur) == n {
			res = append(res, append([]int{}, cur...))
			return
		}
		for i := 0; i < n; i++ {
			if used&(1<<uint(i)) == 0 {
				rec(append(cur, i), used|1<<uint(i))
			}
		}
	}
	rec(nil, 0)
	return res
}

func (e *Exec) rangeOp(x Value) Value {
	switch m := x.(type) {
	case *StrV:
		return &mapIter{str: m}
	case *MapV:
		var live []*MapEntry
		for _, ent := range m.Entries {
			if !ent.deleted {
				live = append(live, ent)
			}
		}
		n := len(live)
		if n >= 2 && !e.mapOrderSite() {
			e.env.mapRangeSeen = true
		}
		if n >= 2 && e.mapOrderSite() {
			var orders [][]int
			if n <= e.cfg.MapPermMax {
				orders = permutations(n)
			} else {
				for r := 0; r < n; r++ {
					o := make([]int, n)
					for i := range o {
						o[i] = (i + r) % n
					}
					orders = append(orders, o)
				}
			}
			k := e.choose('o', make([]*Term, len(orders)))
			ord := make([]*MapEntry, n)
			for i, j := range orders[k] {
				ord[i] = live[j]
			}
			live = ord
		}
		return &mapIter{m: m, order: live}
	case *OpaqueV:
		return &mapIter{m: &MapV{}}
	}
	e.unsupported("range over %T", x)
	return nil
}

func (e *Exec) mapOrderSite() bool {
	if e.cfg.MapOrderOff {
		return false
	}
	if len(e.cfg.MapOrderSites) == 0 {
		return true
	}
	cur := e.stack[len(e.stack)-1]
	for _, s := range e.cfg.MapOrderSites {
		if containsStr(cur, s) {
			return true
		}
	}
	return false
}

func containsStr(s, sub string) bool {
	for i := 0; i+len(sub) <= len(s); i++ {
		if s[i:i+len(sub)] == sub {
			return true
		}
	}
	return false
}

func (e *Exec) nextOp(x *ssa.Next, it *mapIter) Value {
	if x.IsString {
		s := it.str
		if it.pos >= len(s.B) {
			return TupleV{e.tf.ff, e.tf.Const(64, 0), e.tf.Const(32, 0)}
		}
		b0 := s.B[it.pos]
		if !b0.IsConst() {
			if e.branch(e.tf.Cmp(OUlt, b0, e.tf.Const(8, 0x80))) {
				i := it.pos
				it.pos++
				return TupleV{e.tf.tt, e.tf.Const(64, uint64(i)), e.tf.ZExt(b0, 32)}
			}
			// a symbolic byte >= 0x80: let the real decoder (unicode/utf8.DecodeRuneInString, interpreted like
			// any other code, forking on its branches) produce the rune and its width
			if up := e.prog.ImportedPackage("unicode/utf8"); up != nil && up.Func("DecodeRuneInString") != nil {
				sub := &StrV{B: s.B[it.pos:]}
				res := e.call(up.Func("DecodeRuneInString"), []Value{sub}).(TupleV)
				sz := int(e.concretise(res[1].(*Term)))
				i := it.pos
				it.pos += sz
				return TupleV{e.tf.tt, e.tf.Const(64, uint64(i)), res[0]}
			}
			e.unsupported("range over string with symbolic non-ASCII byte")
		}
		var buf []byte
		for k := it.pos; k < len(s.B) && k < it.pos+4; k++ {
			if !s.B[k].IsConst() {
				break
			}
			buf = append(buf, byte(s.B[k].C))
		}
		r, sz := utf8.DecodeRune(buf)
		i := it.pos
		it.pos += sz
		return TupleV{e.tf.tt, e.tf.Const(64, uint64(i)), e.tf.Const(32, uint64(r))}
	}
	for it.pos < len(it.order) {
		ent := it.order[it.pos]
		it.pos++
		if ent.deleted {
			continue
		}
		return TupleV{e.tf.tt, copyVal(ent.K), copyVal(ent.V)}
	}
	kt, vt := it.m.KT, it.m.VT
	var kz, vz Value = e.tf.Const(64, 0), e.tf.Const(64, 0)
	if kt != nil {
		kz, vz = e.zero(kt), e.zero(vt)
	}
	return TupleV{e.tf.ff, kz, vz}
}

func (e *Exec) selectOp(f *Frame, x *ssa.Select) Value {
	if len(e.spec) > 0 {
		panic(specAbort{"select"})
	}
	nrecv := 0
	for _, st := range x.States {
		if st.Dir == types.RecvOnly {
			nrecv++
		}
	}
	res := make(TupleV, 2+nrecv)
	res[0] = e.tf.Const(64, mask(64)) // -1
	res[1] = e.tf.ff
	ri := 0
	for _, st := range x.States {
		if st.Dir == types.RecvOnly {
			res[2+ri] = e.zero(st.Chan.Type().Underlying().(*types.Chan).Elem())
			ri++
		}
	}
	ri = 0
	for i, st := range x.States {
		chv := e.get(f, st.Chan)
		ch, ok := chv.(*ChanV)
		if !ok {
			if st.Dir == types.RecvOnly {
				ri++
			}
			continue // opaque channel (e.g. ctx.Done()): never ready
		}
		if st.Dir == types.SendOnly {
			if !ch.Nil && len(ch.Buf) < ch.Cap {
				ch.Buf = append(ch.Buf, e.get(f, st.Send))
				res[0] = e.tf.Const(64, uint64(i))
				return res
			}
		} else {
			if !ch.Nil && len(ch.Buf) > 0 {
				res[2+ri] = ch.Buf[0]
				ch.Buf = ch.Buf[1:]
				res[0] = e.tf.Const(64, uint64(i))
				res[1] = e.tf.tt
				return res
			}
			ri++
		}
	}
	if x.Blocking {
		panic(pathEnd{"blocked", "select with no ready case"})
	}
	return res
}

// ---------- builtins ----------

func (e *Exec) builtin(name string, args []Value, c *ssa.CallCommon) Value {
	switch name {
	case "len":
		switch s := args[0].(type) {
		case *StrV:
			return e.tf.Const(64, uint64(len(s.B)))
		case *SliceV:
			return e.tf.Const(64, uint64(s.Len))
		case *MapV:
			return e.tf.Const(64, uint64(s.live))
		case *ChanV:
			return e.tf.Const(64, uint64(len(s.Buf)))
		case *PtrV:
			if s.C == nil {
				// len of nil *array is the static length
				at := c.Args[0].Type().Underlying().(*types.Pointer).Elem().Underlying().(*types.Array)
				return e.tf.Const(64, uint64(at.Len()))
			}
			return e.tf.Const(64, uint64(len(e.loadCell(s.C).(*ArrV).Cells)))
		case *ArrV:
			return e.tf.Const(64, uint64(len(s.Cells)))
		case *OpaqueV:
			return e.tf.Const(64, 0)
		}
	case "cap":
		switch s := args[0].(type) {
		case *SliceV:
			return e.tf.Const(64, uint64(s.Cap))
		case *ChanV:
			return e.tf.Const(64, uint64(s.Cap))
		case *PtrV:
			return e.tf.Const(64, uint64(len(e.loadCell(s.C).(*ArrV).Cells)))
		case *ArrV:
			return e.tf.Const(64, uint64(len(s.Cells)))
		}
	case "append":
		return e.appendOp(args, c)
	case "copy":
		if len(e.spec) > 0 {
			panic(specAbort{"copy"})
		}
		dst := args[0].(*SliceV)
		var src []Value
		switch s := args[1].(type) {
		case *SliceV:
			for i := 0; i < s.Len; i++ {
				src = append(src, copyVal(e.loadCell(s.Arr.Cells[s.Off+i])))
			}
		case *StrV:
			for _, b := range s.B {
				src = append(src, b)
			}
		}
		n := len(src)
		if dst.Len < n {
			n = dst.Len
		}
		for i := 0; i < n; i++ {
			e.storeCell(dst.Arr.Cells[dst.Off+i], src[i])
		}
		return e.tf.Const(64, uint64(n))
	case "delete":
		if len(e.spec) > 0 {
			panic(specAbort{"delete"})
		}
		if m, ok := args[0].(*MapV); ok {
			e.mapDelete(m, args[1])
		}
		return nil
	case "min", "max":
		r := args[0].(*Term)
		_, signed := widthOf(c.Args[0].Type())
		for _, a := range args[1:] {
			t := a.(*Term)
			var lt *Term
			if signed {
				lt = e.tf.Cmp(OSlt, t, r)
			} else {
				lt = e.tf.Cmp(OUlt, t, r)
			}
			if name == "max" {
				lt = e.tf.Not(e.tf.Or(lt, e.tf.Cmp(OEq, t, r)))
			}
			r = e.tf.Ite(lt, t, r)
		}
		return r
	case "print", "println":
		return nil
	case "close":
		if ch, ok := args[0].(*ChanV); ok {
			ch.Closed = true
		}
		return nil
	case "recover":
		return &IfaceV{}
	case "ssa:wrapnilchk":
		if p, ok := args[0].(*PtrV); ok && p.IsNil() {
			e.goPanic("value method called using nil pointer")
		}
		return args[0]
	case "clear":
		if m, ok := args[0].(*MapV); ok {
			for _, ent := range m.Entries {
				ent.deleted = true
			}
			m.Entries, m.live, m.index = nil, 0, map[string]*MapEntry{}
		}
		return nil
	}
	e.unsupported("builtin %s(%T)", name, args[0])
	return nil
}

var sizeClasses = []int{0, 8, 16, 24, 32, 48, 64, 80, 96, 112, 128, 144, 160, 176, 192, 208, 224, 240, 256, 288, 320, 352, 384, 416, 448, 480, 512, 576, 640, 704, 768, 896, 1024, 1152, 1280, 1408, 1536, 1792, 2048, 2304, 2688, 3072, 3200, 3456, 4096, 4864, 5120, 5376, 6144, 6528, 6784, 6912, 8192, 9472, 9728, 10240, 10880, 12288, 13568, 14336, 16384, 18432, 19072, 20480, 21760, 24576, 27264, 28672, 32768}

func roundupsize(n int) int {
	if n <= 32768 {
		for _, c := range sizeClasses {
			if c >= n {
				return c
			}
		}
	}
	return (n + 8191) &^ 8191
}

func growCap(oldCap, newLen, elemSize int) int {
	newcap := oldCap
	doublecap := newcap + newcap
	if newLen > doublecap {
		newcap = newLen
	} else {
		const threshold = 256
		if oldCap < threshold {
			newcap = doublecap
		} else {
			for newcap < newLen {
				newcap += (newcap + 3*threshold) >> 2
			}
		}
	}
	if elemSize <= 0 {
		return newcap
	}
	mem := roundupsize(newcap * elemSize)
	return mem / elemSize
}

func (e *Exec) appendOp(args []Value, c *ssa.CallCommon) Value {
	if len(e.spec) > 0 {
		panic(specAbort{"append"})
	}
	dst := args[0].(*SliceV)
	var src []Value
	switch s := args[1].(type) {
	case *SliceV:
		for i := 0; i < s.Len; i++ {
			src = append(src, copyVal(e.loadCell(s.Arr.Cells[s.Off+i])))
		}
	case *StrV:
		for _, b := range s.B {
			src = append(src, b)
		}
	default:
		e.unsupported("append of %T", args[1])
	}
	if len(src) == 0 {
		return dst
	}
	need := dst.Len + len(src)
	if dst.Arr != nil && need <= dst.Cap {
		for i, v := range src {
			e.storeCell(dst.Arr.Cells[dst.Off+dst.Len+i], v)
		}
		return &SliceV{Arr: dst.Arr, Off: dst.Off, Len: need, Cap: dst.Cap}
	}
	var et types.Type
	if c != nil {
		et = c.Args[0].Type().Underlying().(*types.Slice).Elem()
	} else {
		e.unsupported("append without type info")
	}
	nc := growCap(dst.Cap, need, int(stdSizes.Sizeof(et)))
	na := e.newArr(et, nc)
	for i := 0; i < dst.Len; i++ {
		na.Cells[i].V = copyVal(e.loadCell(dst.Arr.Cells[dst.Off+i]))
	}
	for i, v := range src {
		na.Cells[dst.Len+i].V = v
	}
	return &SliceV{Arr: na, Off: 0, Len: need, Cap: nc}
}

// ---------- conversions ----------

func (e *Exec) convert(a Value, from, to types.Type) Value {
	switch v := a.(type) {
	case *Term:
		if wt, _ := widthOf(to); wt >= 0 {
			if wt == 0 {
				return v
			}
			_, sf := widthOf(from)
			if wt < int(v.W) {
				return e.tf.Trunc(v, wt)
			}
			if sf {
				return e.tf.SExt(v, wt)
			}
			return e.tf.ZExt(v, wt)
		}
		if isFloat(to) {
			if !v.IsConst() {
				e.unsupported("symbolic int to float")
			}
			if _, sf := widthOf(from); sf {
				return FloatV(float64(v.S64()))
			}
			return FloatV(float64(v.C))
		}
		if isString(to) {
			if !v.IsConst() {
				e.unsupported("symbolic rune to string")
			}
			return e.strLit(string(rune(v.S64())))
		}
		if b, ok := to.Underlying().(*types.Basic); ok && b.Kind() == types.UnsafePointer {
			e.unsupported("uintptr to unsafe.Pointer")
		}
	case FloatV:
		if isFloat(to) {
			if b := to.Underlying().(*types.Basic); b.Kind() == types.Float32 {
				return FloatV(float64(float32(v)))
			}
			return v
		}
		if wt, st := widthOf(to); wt > 0 {
			f := float64(v)
			if math.IsNaN(f) || math.IsInf(f, 0) {
				return e.tf.Const(wt, 1<<63)
			}
			if st {
				return e.tf.Const(wt, uint64(int64(f)))
			}
			return e.tf.Const(wt, uint64(f))
		}
	case *StrV:
		if isString(to) {
			return v
		}
		if sl, ok := to.Underlying().(*types.Slice); ok {
			if w, _ := widthOf(sl.Elem()); w == 8 {
				return e.newByteSlice(v.B, len(v.B))
			}
			s, ok := strConc(v)
			if !ok {
				e.unsupported("symbolic string to []rune")
			}
			rs := []rune(s)
			ar := e.newArr(sl.Elem(), len(rs))
			for i, r := range rs {
				ar.Cells[i].V = e.tf.Const(32, uint64(r))
			}
			return &SliceV{Arr: ar, Len: len(rs), Cap: len(rs)}
		}
	case *SliceV:
		if isString(to) {
			if v.Arr == nil {
				return &StrV{}
			}
			if w, _ := widthOf(from.Underlying().(*types.Slice).Elem()); w == 8 {
				return &StrV{e.sliceBytes(v)}
			}
			var rs []rune
			for i := 0; i < v.Len; i++ {
				t := e.loadCell(v.Arr.Cells[v.Off+i]).(*Term)
				if !t.IsConst() {
					e.unsupported("symbolic []rune to string")
				}
				rs = append(rs, rune(t.S64()))
			}
			return e.strLit(string(rs))
		}
		return v
	case *PtrV:
		if b, ok := to.Underlying().(*types.Basic); ok && b.Kind() == types.Uintptr {
			e.unsupported("pointer to uintptr")
		}
		return v
	case *OpaqueV:
		return v
	}
	e.unsupported("convert %T from %s to %s", a, from, to)
	return nil
}
