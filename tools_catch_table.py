#!/usr/bin/env python3
"""Regenerates the table of DESIGN.md section 8 (which check catches which seeded change) from
seeded/*/meta.json and seeded/*/last_run.json (written by tools_seed_matrix.py)."""
import json, os, re
S = "/verif/seeded"
rows = []
for n in sorted(os.listdir(S)):
    d = os.path.join(S, n)
    if not os.path.exists(os.path.join(d, "patch.diff")):
        continue
    meta = json.load(open(os.path.join(d, "meta.json"))) if os.path.exists(os.path.join(d, "meta.json")) else {}
    lr = json.load(open(os.path.join(d, "last_run.json"))) if os.path.exists(os.path.join(d, "last_run.json")) else {}
    prop = meta.get("property") or n.split("-")[1][:3]
    need = meta.get("needs_to_manifest", "reverts the repair of the defect the check found (DESIGN §7)" if n.startswith("revert-") else "")
    need = re.sub(r"\s+", " ", need)
    need = re.sub(r"^#+ ?", "", need)[:230]
    for cid, r in sorted(lr.items()):
        if not isinstance(r, dict):
            continue
        if r.get("exit") == 1:
            det = (r.get("detail") or [""])[0]
            m = re.search(r'violation (\S+) \((\w+)\) in (\w+(?:\[[^\]]*\])?(?:/\S+)?)', det) or re.search(r'unreachable cover goal ("[^"]+") in()? (\w+(?:\[[^\]]*\])?)', det)
            how = f"{m.group(1)} in {m.group(3)}" if m else det[:80]
            if "holds in the model" in det:
                how += " (model-level)"
            verdict = f"caught by {cid} {r.get('tier','quick')}: {how}"
        elif r.get("exit") == 0:
            verdict = f"MISSED by {cid} {r.get('tier','quick')}"
        else:
            verdict = f"{cid}: exit {r.get('exit')} ({'; '.join(r.get('inconclusive', []))[:120]})"
        rows.append((n, prop, need, verdict))
    if not lr:
        rows.append((n, prop, need, "patch no longer applies to the final tree (later repairs rewrote the same lines)" if n.startswith("revert-") else "not run yet"))
import sys
out = ["| Seed | Prop. | What it needs to manifest | Result |", "|---|---|---|---|"]
for r in rows:
    out.append("| " + " | ".join(x.replace("|", "/") for x in r) + " |")
caught = sum(1 for r in rows if r[3].startswith("caught"))
out.append("")
out.append(f"{caught} of {len(rows)} seeded changes are reported by the check of the property they break (quick tier unless stated).")
if "--write" in sys.argv:
    p = "/verif/DESIGN.md"
    s = open(p).read()
    a, b = s.index("<!-- CATCH-TABLE-BEGIN -->"), s.index("<!-- CATCH-TABLE-END -->")
    s = s[:a] + "<!-- CATCH-TABLE-BEGIN -->\n" + "\n".join(out) + "\n" + s[b:]
    open(p, "w").write(s)
else:
    print("\n".join(out))
