#!/usr/bin/env python3
# Regenerates MANIFEST.json from the table below (kept in one place so the manifest stays valid).
import json
props=[json.loads(l) for l in open('/verif/properties.jsonl')]
claimed = json.load(open('/verif/manifest_claims.json'))
checks=[]; na=[]
for p in props:
    i=p['id']
    if i in claimed:
        c=claimed[i]
        checks.append({
          "property_id": i,
          "quick_cmd": f"/verif/bin/gosym check {i} --tier quick",
          "thorough_cmd": f"/verif/bin/gosym check {i} --tier thorough",
          "evidence_file": f"/verif/evidence/{i}.json",
          "replay_cmd_template": "/verif/bin/gosym replay {path}",
          "engine": "gosym",
          "level_claimed": {"category":"model_checking","text":c["text"],"design_ref":c.get("design_ref","DESIGN.md §3")},
          "level_note": c["note"],
          "technique": c.get("technique","bounded symbolic execution of the repository's go/ssa form, SMT (z3 QF_BV) verdict per assertion and per feasible panic, native replay of counterexamples"),
        })
    else:
        na.append({"property_id": i, "reason": "check not built yet in this session (work in progress; see DESIGN.md §3 for the planned harness)"})
m={
 "version":1,
 "setup_cmd":"cd /verif/engine && GOFLAGS=-mod=mod GOPROXY=off GOSUMDB=off GOTOOLCHAIN=local go build -o /verif/bin/gosym .",
 "hooks":{"guard":"verif","enable":"harness files carry //go:build verif and are injected with go/packages Overlay (symbolic run) and go test -overlay -tags verif (native replay); nothing is added to /repo","baseline_off_cmd":"cd /repo && GOFLAGS=-mod=mod GOPROXY=off go test -vet=off -count=1 ./core/...","source_commits":[],"add_only":True},
 "engines":[{"name":"gosym","path":"/verif/engine","serves_properties":sorted(claimed.keys()),"kind_free_text":"symbolic executor for Go SSA (golang.org/x/tools/go/ssa) written for this task: re-execution forking, hash-consed bit-vector terms, z3 5.1 as decision procedure, native replay of witnesses through go test -overlay"}],
 "checks":checks,
 "not_applicable":na,
 "notes":"Every check regenerates the encoding from /repo's working tree on each run. Exit 0 = property held within the stated bounds, 1 = VIOLATION (replayed natively unless stated), 2 = harness no longer type-checks against the tree, 3 = inconclusive (bound hit, solver unknown, engine/native mismatch)."
}
json.dump(m,open('/verif/MANIFEST.json','w'),indent=1)
print(len(checks),"claimed,",len(na),"n/a")
