#!/usr/bin/env python3
# Runs the repository's test-suite with the verif guard OFF and checks that the 35 stable baseline tests pass.
import json,subprocess,os,sys
base=json.load(open('/root/.vp/BASELINE.json'))
env=dict(os.environ,GOFLAGS='-mod=mod',GOPROXY='off',GOSUMDB='off',GOTOOLCHAIN='local')
p=subprocess.run(['go','test','-json','-vet=off','-count=1','-timeout','25m','./...'],cwd='/repo',env=env,capture_output=True,text=True)
res={}
for l in p.stdout.splitlines():
    try: e=json.loads(l)
    except: continue
    if e.get('Test') and e.get('Action') in('pass','fail'):
        res[e['Package']+'::'+e['Test']]=e['Action']
bad=[t for t in base['stable_pass'] if res.get(t)!='pass']
print(f"stable baseline: {len(base['stable_pass'])-len(bad)}/{len(base['stable_pass'])} pass")
for t in bad: print("  NOT PASSING:",t,res.get(t))
sys.exit(1 if bad else 0)
