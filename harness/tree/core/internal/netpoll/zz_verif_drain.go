//go:build verif

package netpoll

import (
	"sync/atomic"

	"golang.org/x/sys/unix"

	"rcproxy/core/internal/queue"
	"rcproxy/core/pkg/errors"
)

// VerifDrain runs the "chores" section of Polling once: the urgent queue completely, then at most
// MaxAsyncTasksAtOneTime ordinary tasks, exactly as the poller does after the eventfd fired.
// It is the harness's stand-in for "the event loop woke up because of a Trigger".
func (p *Poller) VerifDrain() (ran int, err error) {
	_, _ = unix.Read(p.efd, p.efdBuf)
	task := p.urgentAsyncTaskQueue.Dequeue()
	for ; task != nil; task = p.urgentAsyncTaskQueue.Dequeue() {
		err = task.Run(task.Arg)
		ran++
		if err == errors.ErrEngineShutdown {
			return
		}
		queue.PutTask(task)
	}
	for i := 0; i < MaxAsyncTasksAtOneTime; i++ {
		if task = p.asyncTaskQueue.Dequeue(); task == nil {
			break
		}
		err = task.Run(task.Arg)
		ran++
		if err == errors.ErrEngineShutdown {
			return
		}
		queue.PutTask(task)
	}
	atomic.StoreInt32(&p.wakeupCall, 0)
	if (!p.asyncTaskQueue.IsEmpty() || !p.urgentAsyncTaskQueue.IsEmpty()) && atomic.CompareAndSwapInt32(&p.wakeupCall, 0, 1) {
		_, _ = unix.Write(p.efd, b)
	}
	return ran, nil
}

// VerifPending reports whether a wake-up is outstanding (tasks queued and the eventfd signalled).
func (p *Poller) VerifPending() bool {
	return !p.asyncTaskQueue.IsEmpty() || !p.urgentAsyncTaskQueue.IsEmpty()
}
