//go:build verif

package hashkit

import "rcproxy/verifrt"

// specCRC16 is CRC16/XMODEM (poly 0x1021, init 0) written bit by bit, branch-free, from the
// Redis Cluster specification; it shares no code with the table-driven implementation.
func specCRC16Step(crc uint16, b byte) uint16 {
	crc ^= uint16(b) << 8
	for i := 0; i < 8; i++ {
		m := -(crc >> 15) // 0xffff if top bit set
		crc = (crc << 1) ^ (0x1021 & m)
	}
	return crc
}

// specKeySlot: slot of key per the specification: hash the substring between the first '{' and the
// first '}' after it when that substring is non-empty, else the whole key.
// Branch-free over the (symbolic) contents; the length is concrete.
func specKeySlot(k []byte) int {
	n := len(k)
	// s = index of first '{' (n if none)
	s := n
	for i := n - 1; i >= 0; i-- {
		s = verifrt.Ite(k[i] == '{', i, s)
	}
	// e = index of first '}' strictly after s (n if none)
	e := n
	for i := n - 1; i >= 0; i-- {
		e = verifrt.Ite(verifrt.And(k[i] == '}', i > s), i, e)
	}
	useTag := verifrt.And(s < n, verifrt.And(e < n, e > s+1))
	// the fold uses a table derived here, at run time, from the bitwise definition above (concrete
	// computation), so the oracle still shares nothing with the implementation's literal table
	var tab [256]uint16
	for i := 0; i < 256; i++ {
		tab[i] = specCRC16Step(0, byte(i))
	}
	var whole, tag uint16
	for i := 0; i < n; i++ {
		whole = (whole << 8) ^ tab[byte(whole>>8)^k[i]]
		in := verifrt.And(i > s, i < e)
		nt := (tag << 8) ^ tab[byte(tag>>8)^k[i]]
		tag = uint16(verifrt.Ite(in, int(nt), int(tag)))
	}
	return verifrt.Ite(useTag, int(tag&16383), int(whole&16383))
}

// HarnessC05 : Hash(k) == spec(k) for every key of length L.
func HarnessC05(L int) {
	k := verifrt.Bytes("key", L)
	got := int(Hash(string(k)))
	want := specKeySlot(k)
	verifrt.ObserveInt("slot", got)
	verifrt.Assert(got == want, "slot_eq_spec")
	verifrt.Cover("end", true)
}

// HarnessC05Table : crc16tab[i] equals the bitwise CRC of the single byte i (all 256 entries, symbolic i).
func HarnessC05Table() {
	i := verifrt.Byte("i")
	verifrt.Assert(uint32(crc16tab[i]) == uint32(specCRC16Step(0, i)), "table_eq_bitwise")
	verifrt.Cover("end", true)
}

// HarnessC05Step : one fold step of the implementation from an arbitrary 32-bit pre-state agrees,
// on the low 16 bits, with the specification's step on the low 16 bits of the pre-state; and the
// slot only depends on those 16 bits. Together with the table lemma this extends the untagged case
// to keys of any length by induction.
func HarnessC05Step() {
	s := uint32(verifrt.Int("state", 0, 0xffffffff))
	b := verifrt.Byte("b")
	next := (s << 8) ^ uint32(crc16tab[((s>>8)^uint32(b))&0x00ff])
	spec := specCRC16Step(uint16(s), b)
	verifrt.Assert(uint16(next) == spec, "step_low16")
	verifrt.Cover("end", true)
}

// HarnessC05History: the mapping has no memory. A long key K (L bytes, a solver-chosen variant, with or
// without a hash tag) is looked up, then n other distinct long keys (concrete, tagged and untagged) are
// looked up, then K again, and a key that differs from K in one arbitrary byte: every answer is the
// specification slot - whatever the earlier lookups left behind (a cache, a pooled buffer, a counter).
func HarnessC05History(n, L int) {
	mk := func(prefix byte, i int, tagged bool) []byte {
		k := make([]byte, L)
		for j := range k {
			k[j] = 'a' + byte((i+j)%23)
		}
		k[0] = prefix
		k[1], k[2], k[3] = byte('0'+i%10), byte('0'+(i/10)%10), byte('0'+(i/100)%10)
		k[4] = byte('0' + (i/1000)%10)
		if tagged {
			k[6], k[12] = '{', '}'
		}
		return k
	}
	tagged := verifrt.Choice("tagged", 2) == 1
	K := mk('K', 0, tagged)
	// (arbitrary key BYTES are the subject of HarnessC05; a 40-byte CRC with symbolic bytes in the middle costs
	// minutes of solver time per query, so the long keys here are concrete variants chosen by the solver)
	K[8], K[L-1] = byte('A'+verifrt.Choice("in_tag", 3)), byte('0'+verifrt.Choice("last", 3))
	want := specKeySlot(K)
	verifrt.Assert(int(Hash(string(K))) == want, "slot_eq_spec")
	for i := 1; i <= n; i++ {
		o := mk('x', i, i%2 == 0)
		got := int(Hash(string(o)))
		if i%97 == 0 || i == n {
			verifrt.Assert(got == specKeySlot(o), "slot_eq_spec")
		}
	}
	verifrt.Assert(int(Hash(string(K))) == want, "slot_eq_spec_after_many_other_lookups")
	K2 := append([]byte{}, K...)
	K2[L-2] = byte('p' + verifrt.Choice("other", 2))
	verifrt.Assert(int(Hash(string(K2))) == specKeySlot(K2), "slot_eq_spec_for_a_neighbouring_key")
	verifrt.Cover("end", true)
}

func init() {
	verifrt.Register("HarnessC05History", func(p []int64) { HarnessC05History(int(p[0]), int(p[1])) })
	verifrt.Register("HarnessC05", func(p []int64) { HarnessC05(int(p[0])) })
	verifrt.Register("HarnessC05Table", func(p []int64) { HarnessC05Table() })
	verifrt.Register("HarnessC05Step", func(p []int64) { HarnessC05Step() })
}
