//go:build verif

package linkedlist

import "rcproxy/verifrt"

// VerifForge builds a list buffer holding the given node contents.
func VerifForge(nodes [][]byte) Buffer {
	var b Buffer
	for _, n := range nodes {
		nd := &node{buf: n}
		if b.tail == nil {
			b.head = nd
		} else {
			b.tail.next = nd
		}
		b.tail = nd
		b.size++
		b.bytes += len(n)
	}
	return b
}

func (llb *Buffer) VerifInv() bool {
	n, bytes := 0, 0
	var last *node
	for it := llb.head; it != nil; it = it.next {
		if len(it.buf) == 0 {
			return false
		}
		n++
		bytes += len(it.buf)
		last = it
		if n > 64 {
			return false
		}
	}
	return n == llb.size && bytes == llb.bytes && last == llb.tail
}

func (llb *Buffer) VerifAbstract() []byte {
	var out []byte
	for it := llb.head; it != nil; it = it.next {
		out = append(out, it.buf...)
	}
	return out
}

// VerifArbitrary: any list of k nodes with lengths from lens (each 1..3), arbitrary contents.
func VerifArbitrary(k int) Buffer {
	var nodes [][]byte
	for i := 0; i < k; i++ {
		l := verifrt.Concretize(verifrt.Int("nodelen", 1, 3))
		nodes = append(nodes, verifrt.Bytes("node", l))
	}
	return VerifForge(nodes)
}

func eqBytes(a, b []byte) bool {
	if len(a) != len(b) {
		return false
	}
	ok := true
	for i := range a {
		ok = verifrt.And(ok, a[i] == b[i])
	}
	return ok
}

func flat(bs [][]byte) []byte {
	var out []byte
	for _, b := range bs {
		out = append(out, b...)
	}
	return out
}

// HarnessC19List: ONE operation from ANY list of k nodes.
//   op: 0 PushBack(n) 1 PeekWithBytes(n, 2 extra bytes) 2 Discard(n) 3 Read(n) 4 Reset 5 Peek(n) 6 PushFront(n)
func HarnessC19List(k, op, n int) {
	b := VerifArbitrary(k)
	llb := &b
	verifrt.Assume(llb.VerifInv())
	before := llb.VerifAbstract()
	verifrt.Assert(llb.Buffered() == len(before) && llb.Len() == k && llb.IsEmpty() == (k == 0), "lengths_exact")
	switch op {
	case 0:
		p := verifrt.Bytes("data", n)
		llb.PushBack(p)
		verifrt.Assert(llb.VerifInv(), "invariant_after_pushback")
		verifrt.Assert(eqBytes(llb.VerifAbstract(), append(append([]byte{}, before...), p...)), "pushback_appends")
	case 1:
		x := verifrt.Bytes("extra", 2)
		got := flat(llb.PeekWithBytes(n, x[:1], x[1:]))
		all := append(append([]byte{}, x...), before...)
		// at least n bytes (whole chunks), always a prefix of extra ++ contents
		verifrt.Assert(len(got) <= len(all) && eqBytes(got, all[:len(got)]), "peek_is_prefix")
		verifrt.Assert(len(got) == len(all) || (n > 0 && len(got) >= n), "peek_returns_enough")
		verifrt.Assert(llb.VerifInv() && eqBytes(llb.VerifAbstract(), before), "peek_does_not_consume")
	case 2:
		d, err := llb.Discard(n)
		want := n
		if n < 0 {
			want = 0
		}
		if want > len(before) {
			want = len(before)
		}
		verifrt.Assert(d == want && err == nil, "discard_count")
		verifrt.Assert(llb.VerifInv() && eqBytes(llb.VerifAbstract(), before[want:]), "discard_drops_prefix")
	case 3:
		p := make([]byte, n)
		m, _ := llb.Read(p)
		want := n
		if want > len(before) {
			want = len(before)
		}
		verifrt.Assert(m == want && eqBytes(p[:m], before[:want]), "read_returns_prefix")
		verifrt.Assert(llb.VerifInv() && eqBytes(llb.VerifAbstract(), before[want:]), "read_consumes_prefix")
	case 4:
		llb.Reset()
		verifrt.Assert(llb.VerifInv() && llb.Buffered() == 0 && llb.IsEmpty() && llb.Len() == 0, "reset_empties")
	case 5:
		got := flat(llb.Peek(n))
		verifrt.Assert(len(got) <= len(before) && eqBytes(got, before[:len(got)]), "peek_is_prefix")
		verifrt.Assert(len(got) == len(before) || (n > 0 && len(got) >= n), "peek_returns_enough")
	case 6:
		p := verifrt.Bytes("data", n)
		llb.PushFront(p)
		verifrt.Assert(llb.VerifInv() && eqBytes(llb.VerifAbstract(), append(append([]byte{}, p...), before...)), "pushfront_prepends")
	}
	verifrt.Cover("end", true)
}

func init() {
	verifrt.Register("HarnessC19List", func(p []int64) { HarnessC19List(int(p[0]), int(p[1]), int(p[2])) })
}
