//go:build verif

package elastic

import (
	"rcproxy/core/pkg/buffer/linkedlist"
	"rcproxy/core/pkg/buffer/ring"
	"rcproxy/verifrt"
)

func eqBytes(a, b []byte) bool {
	if len(a) != len(b) {
		return false
	}
	ok := true
	for i := range a {
		ok = verifrt.And(ok, a[i] == b[i])
	}
	return ok
}

func flat(bs [][]byte) []byte {
	var out []byte
	for _, b := range bs {
		out = append(out, b...)
	}
	return out
}

func (mb *Buffer) verifAbstract() []byte {
	var out []byte
	if mb.ringBuffer.rb != nil {
		out = append(out, mb.ringBuffer.rb.VerifAbstract()...)
	}
	return append(out, mb.listBuffer.VerifAbstract()...)
}

func (mb *Buffer) verifInv() bool {
	if mb.ringBuffer.rb != nil && !mb.ringBuffer.rb.VerifInv() {
		return false
	}
	return mb.listBuffer.VerifInv() && mb.maxStaticBytes > 0
}

// HarnessC19Elastic: ONE operation from ANY state of the composite outbound buffer: a ring of
// rsize bytes (0 = no ring allocated yet) in any position, followed by a list of k nodes, with the
// static limit maxStatic.
//   op: 0 Write(n) 1 Writev(n bytes split in two slices) 2 Peek(n) 3 Discard(n) 4 Read(n) 5 Release
func HarnessC19Elastic(rsize, k, maxStatic, op, n int) {
	mb := &Buffer{maxStaticBytes: maxStatic}
	if rsize > 0 {
		mb.ringBuffer.rb = ring.VerifArbitrary(rsize)
	}
	mb.listBuffer = linkedlist.VerifArbitrary(k)
	verifrt.Assume(mb.verifInv())
	before := mb.verifAbstract()
	verifrt.Assert(mb.Buffered() == len(before) && mb.IsEmpty() == (len(before) == 0), "lengths_exact")
	switch op {
	case 0:
		p := verifrt.Bytes("data", n)
		m, err := mb.Write(p)
		verifrt.Assert(m == n && err == nil, "write_count")
		verifrt.Assert(mb.verifInv() && eqBytes(mb.verifAbstract(), append(append([]byte{}, before...), p...)), "write_appends")
	case 1:
		p := verifrt.Bytes("data", n)
		cut := verifrt.Concretize(verifrt.Int("split", 0, n))
		m, err := mb.Writev([][]byte{p[:cut], p[cut:]})
		verifrt.Assert(m == n && err == nil, "writev_count")
		verifrt.Assert(mb.verifInv() && eqBytes(mb.verifAbstract(), append(append([]byte{}, before...), p...)), "writev_appends")
	case 2:
		got := flat(mb.Peek(n))
		verifrt.Assert(len(got) <= len(before) && eqBytes(got, before[:len(got)]), "peek_is_prefix")
		verifrt.Assert(len(got) == len(before) || (n > 0 && len(got) >= n), "peek_returns_enough")
		verifrt.Assert(mb.verifInv() && eqBytes(mb.verifAbstract(), before), "peek_does_not_consume")
	case 3:
		d, _ := mb.Discard(n)
		want := n
		if n < 0 {
			want = 0
		}
		if want > len(before) {
			want = len(before)
		}
		verifrt.Assert(d == want, "discard_count")
		verifrt.Assert(mb.verifInv() && eqBytes(mb.verifAbstract(), before[want:]), "discard_drops_prefix")
	case 4:
		p := make([]byte, n)
		m, _ := mb.Read(p)
		want := n
		if want > len(before) {
			want = len(before)
		}
		verifrt.Assert(m == want && eqBytes(p[:m], before[:want]), "read_returns_prefix")
		verifrt.Assert(mb.verifInv() && eqBytes(mb.verifAbstract(), before[want:]), "read_consumes_prefix")
	case 5:
		mb.Release()
		verifrt.Assert(mb.Buffered() == 0 && mb.IsEmpty(), "release_empties")
	}
	verifrt.Cover("end", true)
}

func init() {
	verifrt.Register("HarnessC19Elastic", func(p []int64) {
		HarnessC19Elastic(int(p[0]), int(p[1]), int(p[2]), int(p[3]), int(p[4]))
	})
}
