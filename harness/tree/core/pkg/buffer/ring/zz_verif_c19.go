//go:build verif

package ring

import (
	bsPool "rcproxy/core/pkg/pool/byteslice"
	"rcproxy/verifrt"
)

// VerifForge builds a ring buffer in an arbitrary state (used by the inductive-step harnesses).
// The backing slice comes from the byte-slice pool, as every backing slice of a real ring does: its
// length is the ring size and its capacity that of the pool's size class (8192 for a ring of 5120).
func VerifForge(size, r, w int, isEmpty bool, contents []byte) *Buffer {
	buf := bsPool.Get(size)
	copy(buf, contents)
	return &Buffer{bs: make([][]byte, 2), buf: buf, size: size, r: r, w: w, isEmpty: isEmpty}
}

// VerifInv is the representation invariant the inductive step assumes and re-establishes.
func (rb *Buffer) VerifInv() bool {
	if rb.size == 0 {
		return rb.isEmpty && rb.r == 0 && rb.w == 0 && len(rb.buf) == 0
	}
	return len(rb.buf) == rb.size && rb.r >= 0 && rb.r < rb.size && rb.w >= 0 && rb.w < rb.size && (!rb.isEmpty || rb.r == rb.w)
}

// VerifAbstract is the byte sequence the buffer represents.
func (rb *Buffer) VerifAbstract() []byte {
	if rb.isEmpty {
		return nil
	}
	if rb.w > rb.r {
		return append([]byte{}, rb.buf[rb.r:rb.w]...)
	}
	out := append([]byte{}, rb.buf[rb.r:]...)
	return append(out, rb.buf[:rb.w]...)
}

// VerifArbitrary: any valid state of a ring of the given size (positions enumerated, contents symbolic).
func VerifArbitrary(size int) *Buffer {
	if size == 0 {
		return &Buffer{bs: make([][]byte, 2), isEmpty: true}
	}
	var r, w int
	if size > 64 {
		// a ring in the kilobyte range (capacities above 4 KiB are not powers of two: 5120, 6400, 8000 ...):
		// read and write positions at the edges, around 1 KiB and around the 4 KiB mark
		pos := []int{0, 1, 1023, 1024, 4095, 4096, size - 1}
		r = pos[verifrt.Choice("r", len(pos))]
		w = pos[verifrt.Choice("w", len(pos))]
	} else {
		r = verifrt.Concretize(verifrt.Int("r", 0, size-1))
		w = verifrt.Concretize(verifrt.Int("w", 0, size-1))
	}
	empty := verifrt.Concretize(verifrt.Ite(verifrt.Bool("empty"), 1, 0)) == 1
	rb := VerifForge(size, r, w, empty, verifrt.Bytes("mem", size))
	verifrt.Assume(rb.VerifInv())
	return rb
}

func eqBytes(a, b []byte) bool {
	if len(a) != len(b) {
		return false
	}
	ok := true
	for i := range a {
		ok = verifrt.And(ok, a[i] == b[i])
	}
	return ok
}

// HarnessC19Ring: ONE operation from ANY valid state of a ring of `size` bytes.
//   op: 0 Write(n bytes) 1 Peek(n) 2 Discard(n) 3 Read(n bytes) 4 WriteByte 5 ReadByte 6 Bytes/Buffered/Available
func HarnessC19Ring(size, op, n int) {
	rb := VerifArbitrary(size)
	before := rb.VerifAbstract()
	verifrt.Assert(rb.Buffered() == len(before) && rb.Available() == size-len(before), "lengths_exact")
	verifrt.Assert(rb.IsEmpty() == (len(before) == 0) && rb.IsFull() == (len(before) == size && size > 0), "empty_full_exact")
	switch op {
	case 0:
		p := verifrt.Bytes("data", n)
		m, err := rb.Write(p)
		verifrt.Assert(m == n && err == nil, "write_count")
		verifrt.Assert(rb.VerifInv(), "invariant_after_write")
		verifrt.Assert(eqBytes(rb.VerifAbstract(), append(append([]byte{}, before...), p...)), "write_appends")
	case 1:
		head, tail := rb.Peek(n)
		want := before
		if n > 0 && n < len(before) {
			want = before[:n]
		}
		verifrt.Assert(eqBytes(append(append([]byte{}, head...), tail...), want), "peek_is_prefix")
		verifrt.Assert(rb.VerifInv() && eqBytes(rb.VerifAbstract(), before), "peek_does_not_consume")
	case 2:
		d, err := rb.Discard(n)
		want := n
		if n < 0 {
			want = 0
		}
		if want > len(before) {
			want = len(before)
		}
		verifrt.Assert(d == want && err == nil, "discard_count")
		verifrt.Assert(rb.VerifInv(), "invariant_after_discard")
		verifrt.Assert(eqBytes(rb.VerifAbstract(), before[want:]), "discard_drops_prefix")
	case 3:
		p := make([]byte, n)
		m, err := rb.Read(p)
		want := n
		if want > len(before) {
			want = len(before)
		}
		verifrt.Assert(m == want, "read_count")
		verifrt.Assert((err != nil) == (n > 0 && len(before) == 0), "read_error_iff_empty")
		verifrt.Assert(eqBytes(p[:m], before[:want]), "read_returns_prefix")
		verifrt.Assert(rb.VerifInv() && eqBytes(rb.VerifAbstract(), before[want:]), "read_consumes_prefix")
	case 4:
		c := verifrt.Byte("c")
		err := rb.WriteByte(c)
		verifrt.Assert(err == nil && rb.VerifInv(), "invariant_after_writebyte")
		verifrt.Assert(eqBytes(rb.VerifAbstract(), append(append([]byte{}, before...), c)), "writebyte_appends")
	case 5:
		b, err := rb.ReadByte()
		if len(before) == 0 {
			verifrt.Assert(err != nil, "readbyte_error_when_empty")
		} else {
			verifrt.Assert(err == nil && b == before[0], "readbyte_returns_first")
			verifrt.Assert(rb.VerifInv() && eqBytes(rb.VerifAbstract(), before[1:]), "readbyte_consumes_one")
		}
	case 6:
		verifrt.Assert(eqBytes(rb.Bytes(), before), "bytes_equals_contents")
		rb.Reset()
		verifrt.Assert(rb.VerifInv() && rb.Buffered() == 0 && rb.IsEmpty(), "reset_empties")
	}
	verifrt.Cover("end", true)
}

// HarnessC19Grow: the real grow() on a ring of `size` bytes holding `fill` bytes starting at position r,
// asked for capacity size+extra: contents are preserved, the invariant holds and the new capacity
// covers the request (this is where the 4 KiB static/dynamic growth threshold is crossed).
func HarnessC19Grow(size, r, fill, extra int) {
	mem := verifrt.Bytes("mem", size)
	w := (r + fill) % size
	rb := VerifForge(size, r, w, fill == 0, mem)
	verifrt.Assume(rb.VerifInv() && rb.Buffered() == fill)
	before := rb.VerifAbstract()
	rb.grow(size + extra)
	verifrt.Assert(rb.VerifInv(), "invariant_after_grow")
	verifrt.Assert(rb.size >= size+extra, "grown_capacity_covers_request")
	verifrt.Assert(eqBytes(rb.VerifAbstract(), before), "grow_preserves_contents")
	// and a write that needs the growth lands after the old contents
	p := verifrt.Bytes("data", 3)
	rb.Write(p)
	verifrt.Assert(rb.VerifInv() && eqBytes(rb.VerifAbstract(), append(append([]byte{}, before...), p...)), "write_after_grow_appends")
	verifrt.Cover("end", true)
}

func init() {
	verifrt.Register("HarnessC19Ring", func(p []int64) { HarnessC19Ring(int(p[0]), int(p[1]), int(p[2])) })
	verifrt.Register("HarnessC19Grow", func(p []int64) { HarnessC19Grow(int(p[0]), int(p[1]), int(p[2]), int(p[3])) })
}
