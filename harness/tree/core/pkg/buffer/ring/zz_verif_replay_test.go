//go:build verif

package ring

import (
	"testing"

	"rcproxy/verifrt"
)

func TestVerifReplay(t *testing.T) {
	if !verifrt.ReplayMain() {
		t.Skip("no witness")
	}
}
