//go:build verif

package core

import (
	"rcproxy/core/pkg/redis"
	"rcproxy/verifrt"
)

// ---- fake INFO source (the real one dials the node) ----

type verifRedis struct {
	loading bool
	link    string
	fail    bool
}

// VerifLoading: nodes whose INFO currently reports loading:1 (a replica still loading its data set).
var VerifLoading = map[string]bool{}

func (f *verifRedis) Dial(address, passwd string, options ...redis.DialOption) (redis.Conn, error) {
	if f.fail {
		return nil, verifErrDial
	}
	if VerifLoading[address] {
		return &verifRedisConn{&verifRedis{loading: true, link: f.link}}, nil
	}
	return &verifRedisConn{f}, nil
}

type verifRedisConn struct{ f *verifRedis }

func (c *verifRedisConn) Info() (*redis.Info, error) {
	return &redis.Info{Version: "6.2.0", Loading: c.f.loading, MasterLinkStatus: c.f.link}, nil
}
func (c *verifRedisConn) Do(cmd string, args ...interface{}) (interface{}, error) {
	if cmd == "PING" {
		return "PONG", nil
	}
	return nil, nil
}

// ---- health probes of the pool monitor (model only) ----

// VerifProbeDown lists the nodes whose health probe (Pool.detect: dial + PING) currently fails.
var VerifProbeDown = map[string]bool{}

// VerifProbeDial stands in for redis.Dial inside Pool.detect (job-level redirect in the symbolic run).
func VerifProbeDial(address, passwd string, options ...redis.DialOption) (redis.Conn, error) {
	if VerifProbeDown[address] {
		return nil, verifErrDial
	}
	return &verifRedisConn{&verifRedis{link: "up"}}, nil
}

// VerifRunMonitor lets the health-monitor goroutine of a node's pool handle `ticks` ticks of its 5 s
// ticker and reports whether it is still running afterwards (parked, waiting for the next tick).
// Every iteration of the monitor's loop starts from the same state (the loop keeps nothing but the
// ticker), so a second call continues a monitor that the first call left running.
func VerifRunMonitor(addr string, ticks int) bool {
	p := EngineGlobal.ProxyPool[addr]
	verifrt.SetTicks(ticks)
	return verifrt.RunUntilBlocked(p.monitor)
}
func (c *verifRedisConn) Send(cmd string, args ...interface{}) error              { return nil }
func (c *verifRedisConn) Flush() error                                            { return nil }
func (c *verifRedisConn) Receive() (interface{}, error)                           { return nil, nil }
func (c *verifRedisConn) Close() error                                            { return nil }

const verifNodes3 = "aaa 10.0.0.1:7001@17001 master - 0 0 1 connected 0-5460\n" +
	"bbb 10.0.0.2:7002@17002 master - 0 0 2 connected 5461-10922\n" +
	"ccc 10.0.0.3:7003@17003 master - 0 0 3 connected 10923-16383\n"

func verifBulk(s string) []byte {
	return []byte("$" + verifItoa(len(s)) + "\r\n" + s + "\r\n")
}

func verifClusterWorld() (*VerifWorld, *VerifConn) {
	h := &VerifCapture{}
	w := VerifNewWorld(h, VerifDefaultOptions())
	w.AddPool("A:1", false)
	EngineGlobal.ClusterNodes = ClusterNodes{redisWrapper: &verifRedis{link: "up"}}
	return w, nil
}

// probe sends one CLUSTER NODES probe over the pool's connection, as OnTicker does.
func (w *VerifWorld) verifProbe() *VerifConn {
	sc := EngineGlobal.ProxyPool["A:1"].Get()
	verifrt.Assert(sc != nil, "probe_connection")
	_ = sc.WriteClusterNodes()
	w.RunTasks() // writeClusterNodes -> EnqueueOutFrag -> write signal
	w.RunTasks() // handleWriteSignal
	return w.ByAddr["A:1"][0]
}

// HarnessC14Loop: the refresh loop receives an UNUSABLE probe reply of a solver-chosen class and
// content, then a valid one. The loop must still be alive and must have adopted the valid one.
func HarnessC14Loop() {
	w, _ := verifClusterWorld()
	s := w.verifProbe()
	w.verifProbe()
	var bad []byte
	switch verifrt.Choice("class", 6) {
	case 0:
		bad = []byte("+OK\r\n")
	case 1:
		bad = []byte("$-1\r\n")
	case 2: // an error reply with arbitrary code letters
		code := verifrt.Bytes("code", 3)
		for _, b := range code {
			verifrt.Assume(verifrt.And(b >= 'A', b <= 'Z'))
		}
		bad = append(append([]byte{'-'}, code...), " cluster support disabled\r\n"...)
	case 3: // well-formed but too few nodes: one master line
		bad = verifBulk("aaa 10.0.0.1:7001@17001 master - 0 0 1 connected 0-16383\n")
	case 4: // arbitrary short text
		t := verifrt.Bytes("text", 4)
		for _, b := range t {
			verifrt.Assume(verifrt.And(b != '\r', b != '\n'))
		}
		bad = verifBulk(string(t) + "\n")
	case 5: // oversized length announced by a huge (but framed) reply is out of reach; a status line instead
		t := verifrt.Bytes("status", 2)
		for _, b := range t {
			verifrt.Assume(verifrt.And(b != '\r', b != '\n'))
		}
		bad = append(append([]byte{'+'}, t...), '\r', '\n')
	}
	w.Feed(s, bad)
	verifrt.Assert(len(EngineGlobal.clusterChan) == 1, "first_reply_reaches_the_refresh_loop")
	w.Feed(s, verifBulk(verifNodes3))
	verifrt.Assert(len(EngineGlobal.clusterChan) == 2, "second_reply_reaches_the_refresh_loop")
	alive := verifrt.RunUntilBlocked(EngineGlobal.ClusterNodes.loopClusterNodes)
	verifrt.ObserveBool("alive", alive)
	verifrt.Assert(alive, "refresh_loop_survives_unusable_reply")
	verifrt.Assert(len(EngineGlobal.clusterChan) == 0, "both_replies_consumed")
	cn := &EngineGlobal.ClusterNodes
	verifrt.Assert(cn.serverChanged && cn.ServerMap.Len() == 3 && len(cn.Replicasets) == 3, "valid_reply_adopted_after_unusable_one")
	verifrt.Cover("end", true)
}

// HarnessC14Parse: three healthy masters plus one node line whose flags, link state, role and INFO
// answers are chosen by the solver; the node is used iff the rule of the property says so.
func HarnessC14Parse() {
	verifClusterWorld()
	cn := &EngineGlobal.ClusterNodes
	role := []string{"master", "slave"}[verifrt.Choice("role", 2)]
	flags := role
	extras := []string{"myself", "fail?", "fail", "handshake", "noaddr"}
	var has [5]bool
	for i, x := range extras {
		has[i] = verifrt.Concretize(verifrt.Ite(verifrt.Bool("flag"), 1, 0)) == 1
		if has[i] {
			if verifrt.Concretize(verifrt.Ite(verifrt.Bool("before"), 1, 0)) == 1 {
				flags = x + "," + flags
			} else {
				flags = flags + "," + x
			}
		}
	}
	link := []string{"connected", "disconnected"}[verifrt.Choice("link", 2)]
	loading := verifrt.Concretize(verifrt.Ite(verifrt.Bool("loading"), 1, 0)) == 1
	mlink := []string{"up", "down"}[verifrt.Choice("master_link", 2)]
	cn.redisWrapper = &verifRedis{loading: loading, link: mlink}
	master := "-"
	slots := " 16000-16383"
	if role == "slave" {
		master, slots = "ccc", ""
	}
	line := "ddd 10.0.0.4:7004@17004 " + flags + " " + master + " 0 0 4 " + link + slots + "\n"
	text := "aaa 10.0.0.1:7001@17001 master - 0 0 1 connected 0-5460\n" +
		"bbb 10.0.0.2:7002@17002 master - 0 0 2 connected 5461-10922\n" +
		"ccc 10.0.0.3:7003@17003 master - 0 0 3 connected 10923-15999\n" + line
	nodes, err := cn.parse(text)
	verifrt.Assert(err == nil && len(nodes) >= 3, "healthy_nodes_always_used")
	used := false
	for _, n := range nodes {
		if n.Addr == "10.0.0.4:7004" {
			used = true
			verifrt.Assert((n.Role == Slave) == (role == "slave"), "role_parsed")
		}
	}
	verifrt.ObserveBool("used", used)
	bad := has[2] || has[3] || has[4] || link == "disconnected" || (role == "slave" && (loading || mlink != "up"))
	if !has[1] { // "fail?" (possible failure) is not covered by the rule: no obligation either way
		verifrt.Assert(used == !bad, "node_used_iff_rule_allows")
	}
	verifrt.Cover("end", true)
}

// HarnessC14Ticker: the slot table rebuilt by the ticker from a CLUSTER NODES text whose last range
// end is chosen by the solver (in range, at the limit, beyond it): every slot is served by the
// master claiming it, unclaimed slots are unowned, pools follow the node set, nothing crashes.
func HarnessC14Ticker() {
	w, _ := verifClusterWorld()
	cn := &EngineGlobal.ClusterNodes
	ends := []string{"16383", "16000", "16384", "20000", "5460"}
	ei := verifrt.Choice("last_range_end", len(ends))
	text := "aaa 10.0.0.1:7001@17001 master - 0 0 1 connected 0-5460\n" +
		"bbb 10.0.0.2:7002@17002 master - 0 0 2 connected 5461-10922 [5461->-ccc]\n" +
		"ccc 10.0.0.3:7003@17003 master - 0 0 3 connected 10923-" + ends[ei] + "\n" +
		"eee 10.0.0.5:7005@17005 slave aaa 0 0 1 connected\n"
	err := cn.updateClusterNodes(text)
	valid := ei <= 1 // the text is valid iff the last range stays inside 0..16383 and is not reversed
	if !valid {
		// malformed text: the previous (empty) map stays in force and nothing crashes
		w.Tick()
		verifrt.Assert(EngineGlobal.Slots2Node.NotExist(int32(verifrt.Int("slot", 0, 16383))) || cn.serverChanged || err == nil, "no_crash_on_malformed_ranges")
		verifrt.Cover("end", true)
		return
	}
	verifrt.Assert(err == nil && cn.serverChanged, "valid_text_adopted")
	w.Tick()
	verifrt.Assert(!cn.serverChanged, "change_consumed_by_ticker")
	slot := verifrt.Int("slot", 0, 16383)
	rs := EngineGlobal.Slots2Node.Get(int32(slot))
	last := 16383
	if ei == 1 {
		last = 16000
	}
	want := ""
	switch {
	case slot <= 5460:
		want = "10.0.0.1:7001"
	case slot <= 10922:
		want = "10.0.0.2:7002"
	case slot <= last:
		want = "10.0.0.3:7003"
	}
	if want == "" {
		verifrt.Assert(rs == nil, "unclaimed_slot_is_unowned")
	} else {
		verifrt.Assert(rs != nil && rs.Master.Addr == want, "slot_served_by_claiming_master")
		if want == "10.0.0.1:7001" {
			verifrt.Assert(len(rs.Slaves) == 1 && rs.Slaves[0].Addr == "10.0.0.5:7005", "replica_attached_to_its_master")
		}
	}
	// pools follow the node set: the seed pool A:1 is gone, one pool per node
	_, seed := EngineGlobal.ProxyPool["A:1"]
	verifrt.Assert(!seed && len(EngineGlobal.ProxyPool) == 4, "pools_follow_node_set")
	verifrt.Cover("end", true)
}

// ---- histories of probe replies ----

type VerifTopo struct {
	Text    string
	Masters map[string][2]int // master addr -> the slot range it serves
	Slaves  map[string]string // replica addr -> its master's addr (only replicas whose master is usable)
	Unowned [][2]int          // slot ranges nobody serves
	Others  []string          // usable nodes that belong to no replica set (a replica whose master failed)
}

var VerifTopos = []VerifTopo{
	{ // T0: three masters, one replica each
		Text: "m1 10.0.0.1:7001@17001 master - 0 0 1 connected 0-5460\n" +
			"m2 10.0.0.2:7002@17002 master - 0 0 2 connected 5461-10922\n" +
			"m3 10.0.0.3:7003@17003 master - 0 0 3 connected 10923-16383\n" +
			"r1 10.0.0.4:7004@17004 slave m1 0 0 1 connected\n" +
			"r2 10.0.0.5:7005@17005 slave m2 0 0 2 connected\n" +
			"r3 10.0.0.6:7006@17006 slave m3 0 0 3 connected\n",
		Masters: map[string][2]int{"10.0.0.1:7001": {0, 5460}, "10.0.0.2:7002": {5461, 10922}, "10.0.0.3:7003": {10923, 16383}},
		Slaves:  map[string]string{"10.0.0.4:7004": "10.0.0.1:7001", "10.0.0.5:7005": "10.0.0.2:7002", "10.0.0.6:7006": "10.0.0.3:7003"},
	},
	{ // T1: m1 failed, its replica r1 promoted
		Text: "m1 10.0.0.1:7001@17001 master,fail - 0 0 1 disconnected\n" +
			"m2 10.0.0.2:7002@17002 master - 0 0 2 connected 5461-10922\n" +
			"m3 10.0.0.3:7003@17003 master - 0 0 3 connected 10923-16383\n" +
			"r1 10.0.0.4:7004@17004 master - 0 0 4 connected 0-5460\n" +
			"r2 10.0.0.5:7005@17005 slave m2 0 0 2 connected\n" +
			"r3 10.0.0.6:7006@17006 slave m3 0 0 3 connected\n",
		Masters: map[string][2]int{"10.0.0.4:7004": {0, 5460}, "10.0.0.2:7002": {5461, 10922}, "10.0.0.3:7003": {10923, 16383}},
		Slaves:  map[string]string{"10.0.0.5:7005": "10.0.0.2:7002", "10.0.0.6:7006": "10.0.0.3:7003"},
	},
	{ // T2: m1 is back, as a replica of r1
		Text: "m1 10.0.0.1:7001@17001 slave r1 0 0 4 connected\n" +
			"m2 10.0.0.2:7002@17002 master - 0 0 2 connected 5461-10922\n" +
			"m3 10.0.0.3:7003@17003 master - 0 0 3 connected 10923-16383\n" +
			"r1 10.0.0.4:7004@17004 master - 0 0 4 connected 0-5460\n" +
			"r2 10.0.0.5:7005@17005 slave m2 0 0 2 connected\n" +
			"r3 10.0.0.6:7006@17006 slave m3 0 0 3 connected\n",
		Masters: map[string][2]int{"10.0.0.4:7004": {0, 5460}, "10.0.0.2:7002": {5461, 10922}, "10.0.0.3:7003": {10923, 16383}},
		Slaves:  map[string]string{"10.0.0.1:7001": "10.0.0.4:7004", "10.0.0.5:7005": "10.0.0.2:7002", "10.0.0.6:7006": "10.0.0.3:7003"},
	},
	{ // T3: T0 after moving slots 5000-5460 from m1 to m2
		Text: "m1 10.0.0.1:7001@17001 master - 0 0 1 connected 0-4999\n" +
			"m2 10.0.0.2:7002@17002 master - 0 0 5 connected 5000-10922\n" +
			"m3 10.0.0.3:7003@17003 master - 0 0 3 connected 10923-16383\n" +
			"r1 10.0.0.4:7004@17004 slave m1 0 0 1 connected\n" +
			"r2 10.0.0.5:7005@17005 slave m2 0 0 5 connected\n" +
			"r3 10.0.0.6:7006@17006 slave m3 0 0 3 connected\n",
		Masters: map[string][2]int{"10.0.0.1:7001": {0, 4999}, "10.0.0.2:7002": {5000, 10922}, "10.0.0.3:7003": {10923, 16383}},
		Slaves:  map[string]string{"10.0.0.4:7004": "10.0.0.1:7001", "10.0.0.5:7005": "10.0.0.2:7002", "10.0.0.6:7006": "10.0.0.3:7003"},
	},
	{ // T4: m1 failed and its replica has not been promoted (yet): slots 0-5460 have no owner
		Text: "m1 10.0.0.1:7001@17001 master,fail - 0 0 1 disconnected 0-5460\n" +
			"m2 10.0.0.2:7002@17002 master - 0 0 2 connected 5461-10922\n" +
			"m3 10.0.0.3:7003@17003 master - 0 0 3 connected 10923-16383\n" +
			"r1 10.0.0.4:7004@17004 slave m1 0 0 1 connected\n" +
			"r2 10.0.0.5:7005@17005 slave m2 0 0 2 connected\n" +
			"r3 10.0.0.6:7006@17006 slave m3 0 0 3 connected\n",
		Masters: map[string][2]int{"10.0.0.2:7002": {5461, 10922}, "10.0.0.3:7003": {10923, 16383}},
		Slaves:  map[string]string{"10.0.0.5:7005": "10.0.0.2:7002", "10.0.0.6:7006": "10.0.0.3:7003"},
		Unowned: [][2]int{{0, 5460}},
		Others:  []string{"10.0.0.4:7004"},
	},
	{ // T5: slots 8001-10922 were taken from the live master m2 and belong to nobody
		Text: "m1 10.0.0.1:7001@17001 master - 0 0 1 connected 0-5460\n" +
			"m2 10.0.0.2:7002@17002 master - 0 0 6 connected 5461-8000\n" +
			"m3 10.0.0.3:7003@17003 master - 0 0 3 connected 10923-16383\n" +
			"r1 10.0.0.4:7004@17004 slave m1 0 0 1 connected\n" +
			"r2 10.0.0.5:7005@17005 slave m2 0 0 6 connected\n" +
			"r3 10.0.0.6:7006@17006 slave m3 0 0 3 connected\n",
		Masters: map[string][2]int{"10.0.0.1:7001": {0, 5460}, "10.0.0.2:7002": {5461, 8000}, "10.0.0.3:7003": {10923, 16383}},
		Slaves:  map[string]string{"10.0.0.4:7004": "10.0.0.1:7001", "10.0.0.5:7005": "10.0.0.2:7002", "10.0.0.6:7006": "10.0.0.3:7003"},
		Unowned: [][2]int{{8001, 10922}},
	},
}

// HarnessC14History: a history of h successive valid probe replies, each chosen by the solver among
// four topologies (steady state, fail-over, fail-back as replica, resharding), interleaved with
// ticker runs. After every step the routing table, the replica sets and the pools describe the
// LATEST reply - whatever came before.
func HarnessC14History(h, ntopo int) { verifC14History(h, ntopo, false) }

// HarnessC14HistoryInfo: as HarnessC14History, and at each reply one of the two nodes that change role may
// still be loading its data set according to INFO.
func HarnessC14HistoryInfo(h, ntopo int) {
	loadChoices = 3
	verifC14History(h, ntopo, false)
	loadChoices = 1
}

var loadChoices = 1

// HarnessC14Bunched: as HarnessC14History, but probe replies may bunch up: after each reply the
// solver decides whether the event loop's ticker gets to run before the next reply is processed.
// The cluster then stays at the last description: the probe repeats it and the ticker runs; the
// table must describe it.
func HarnessC14Bunched(h, ntopo int) { verifC14History(h, ntopo, true) }

func verifC14History(h, ntopo int, bunched bool) {
	w, _ := verifClusterWorld()
	cn := &EngineGlobal.ClusterNodes
	VerifLoading = map[string]bool{}
	// without: the description t minus a NEWLY DISCOVERED replica (one that is not part of the map in force)
	// that is still loading its data set: it must not be used. Nodes already in force are not probed again.
	inForce := map[string]bool{}
	without := func(t VerifTopo, loading string) VerifTopo {
		if _, isReplica := t.Slaves[loading]; !isReplica || inForce[loading] {
			return t
		}
		u := t
		u.Slaves = map[string]string{}
		for a, m := range t.Slaves {
			if a != loading {
				u.Slaves[a] = m
			}
		}
		return u
	}
	check := func(t VerifTopo) {
		verifrt.Assert(!cn.serverChanged, "change_consumed_by_ticker")
		for m, rng := range t.Masters {
			for _, slot := range []int{rng[0], rng[1]} {
				rs := EngineGlobal.Slots2Node.Get(int32(slot))
				verifrt.Assert(rs != nil && rs.Master.Addr == m, "slot_served_by_the_master_of_the_latest_reply")
				for _, sl := range rs.Slaves {
					verifrt.Assert(t.Slaves[sl.Addr] == m, "replica_attached_to_its_master_of_the_latest_reply")
				}
				n := 0
				for _, mm := range t.Slaves {
					if mm == m {
						n++
					}
				}
				verifrt.Assert(len(rs.Slaves) == n, "all_usable_replicas_attached")
			}
		}
		for _, rng := range t.Unowned {
			for _, slot := range []int{rng[0], rng[1]} {
				verifrt.Assert(EngineGlobal.Slots2Node.Get(int32(slot)) == nil, "slot_nobody_claims_in_the_latest_reply_is_unowned")
			}
		}
		verifrt.Assert(len(EngineGlobal.ProxyPool) == len(t.Masters)+len(t.Slaves)+len(t.Others), "pools_follow_latest_node_set")
		for a := range t.Masters {
			p, ok := EngineGlobal.ProxyPool[a]
			verifrt.Assert(ok && !p.isSlave, "master_pool_present_and_master")
		}
		for a := range t.Slaves {
			p, ok := EngineGlobal.ProxyPool[a]
			verifrt.Assert(ok && p.isSlave, "replica_pool_present_and_replica")
		}
	}
	var last VerifTopo
	for step := 0; step < h; step++ {
		t := VerifTopos[verifrt.Choice("topology", ntopo)]
		// at the time of this reply one of the two nodes that change role in these histories may still be
		// loading its data set (INFO loading:1): as a replica it must then be left out
		loading := []string{"", "10.0.0.4:7004", "10.0.0.1:7001"}[verifrt.Choice("node_still_loading", loadChoices)]
		VerifLoading = map[string]bool{loading: true}
		t = without(t, loading)
		last = t
		if err := cn.updateClusterNodes(t.Text); err != nil {
			verifrt.Assert(false, "valid_text_accepted")
		}
		inForce = map[string]bool{}
		for a := range t.Masters {
			inForce[a] = true
		}
		for a := range t.Slaves {
			inForce[a] = true
		}
		for _, a := range t.Others {
			inForce[a] = true
		}
		if bunched && verifrt.Choice("ticker_runs_before_next_reply", 2) == 0 {
			continue
		}
		verifrt.Sleep(1100) // the ticker runs at most once a second
		w.Tick()
		check(t)
	}
	if bunched {
		// the cluster is stable now: the next probes repeat the last description
		for i := 0; i < 2; i++ {
			if err := cn.updateClusterNodes(last.Text); err != nil {
				verifrt.Assert(false, "valid_text_accepted")
			}
			verifrt.Sleep(1100)
			w.Tick()
		}
		check(last)
	}
	verifrt.Cover("end", true)
}

func init() {
	verifrt.Register("HarnessC14HistoryInfo", func(p []int64) { HarnessC14HistoryInfo(int(p[0]), int(p[1])) })
	verifrt.Register("HarnessC14History", func(p []int64) { HarnessC14History(int(p[0]), int(p[1])) })
	verifrt.Register("HarnessC14Bunched", func(p []int64) { HarnessC14Bunched(int(p[0]), int(p[1])) })
	verifrt.Register("HarnessC14Loop", func(p []int64) { HarnessC14Loop() })
	verifrt.Register("HarnessC14Parse", func(p []int64) { HarnessC14Parse() })
	verifrt.Register("HarnessC14Ticker", func(p []int64) { HarnessC14Ticker() })
}
