//go:build verif

package codec

import "rcproxy/verifrt"

// Reference arity classes, written independently of commands.go (they are the classes of the
// twemproxy-style protocol the proxy documents: number of arguments after the command name).
//   'z' none | '1'..'4' exactly that many | 'n' at least one | 'e' even, at least two
var verifRefArity = map[string]byte{
	"ping": 'z', "quit": 'z',
	// exactly one argument (the key)
	"exists": '1', "ttl": '1', "pttl": '1', "type": '1', "dump": '1', "get": '1', "strlen": '1', "hgetall": '1', "hkeys": '1',
	"hlen": '1', "smembers": '1', "zcard": '1', "llen": '1', "scard": '1', "hvals": '1', "pfcount": '1', "spop": '1', "auth": '1',
	"rpop": '1', "persist": '1', "decr": '1', "incr": '1', "lpop": '1',
	// key + 1
	"rpoplpush": '2', "rpushx": '2', "getbit": '2', "hexists": '2', "hget": '2', "lindex": '2', "sismember": '2', "expire": '2',
	"zrank": '2', "zrevrank": '2', "zscore": '2', "expireat": '2', "pexpire": '2', "pexpireat": '2', "append": '2', "decrby": '2',
	"getset": '2', "incrby": '2', "incrbyfloat": '2', "setnx": '2', "lpushx": '2',
	// key + 2
	"getrange": '3', "lrange": '3', "zcount": '3', "zlexcount": '3', "psetex": '3', "restore": '3', "setbit": '3', "setex": '3',
	"setrange": '3', "hincrby": '3', "hincrbyfloat": '3', "hset": '3', "hsetnx": '3', "lrem": '3', "lset": '3', "ltrim": '3',
	"smove": '3', "zincrby": '3', "zremrangebyrank": '3', "zremrangebylex": '3', "zremrangebyscore": '3',
	// key + 3
	"linsert": '4',
	// key + anything
	"set": 'n', "hmset": 'n', "lpush": 'n', "sunion": 'n', "hdel": 'n', "pfmerge": 'n', "rpush": 'n', "pfadd": 'n', "sadd": 'n',
	"sdiffstore": 'n', "sinterstore": 'n', "srem": 'n', "sunionstore": 'n', "zadd": 'n', "zinterstore": 'n', "zrem": 'n',
	"bitcount": 'n', "zunionstore": 'n', "eval": 'n', "evalsha": 'n', "mget": 'n', "hmget": 'n', "hscan": 'n', "srandmember": 'n',
	"sscan": 'n', "sdiff": 'n', "sinter": 'n', "zrange": 'n', "zrangebylex": 'n', "zrangebyscore": 'n', "zrevrange": 'n',
	"zrevrangebyscore": 'n', "zscan": 'n', "del": 'n', "sort": 'n',
	"mset": 'e',
}

func VerifArityOK(class byte, n int) bool {
	switch class {
	case 'z':
		return n == 0
	case '1', '2', '3', '4':
		return n == int(class-'0')
	case 'n':
		return n >= 1
	case 'e':
		return n >= 2 && n%2 == 0
	}
	return false
}

// VerifSupported: the documented set (docs/command.md rows marked Yes, parsed at check time into
// verifDocYes) plus AUTH, which the property names.
func VerifSupported() []string {
	out := append([]string{}, verifDocYes...)
	return append(out, "auth")
}

// HarnessC17Name: for EVERY byte string of length L as command name and every argument count in
// [0,6], Transform2Type recognises exactly the documented commands (any letter case), applies the
// command's arity class, and maps back to the same name.
func HarnessC17Name(L int) {
	verifC17Name(verifrt.Bytes("name", L))
}

// HarnessC17Near: every documented command name with ONE of its letters replaced by wd arbitrary bytes
// (so multi-byte look-alikes of a letter, control bytes, a letter of the other case ... in every position
// of every name): recognised exactly when the result is a documented name up to ASCII letter case.
func HarnessC17Near(wd int) {
	sup := VerifSupported()
	cand := sup[verifrt.Choice("command", len(sup))]
	pos := verifrt.Concretize(verifrt.Int("position", 0, len(cand)-1))
	name := append([]byte{}, cand[:pos]...)
	name = append(name, verifrt.Bytes("replacement", wd)...)
	name = append(name, cand[pos+1:]...)
	verifC17Name(name)
}

func verifC17Name(name []byte) {
	L := len(name)
	// the argument count is arbitrary up to 70000 (a request of that many one-byte arguments is well inside the
	// 6 MiB size limit): small counts, counts around 256 and 65536, anything
	n := verifrt.Int("nargs", 0, 70000)
	in := append([]byte{}, name...)
	got := Transform2Type(in, n)

	lower := make([]byte, L)
	for i := range lower {
		c := name[i]
		lower[i] = verifrt.IteByte(verifrt.And(c >= 'A', c <= 'Z'), c|0x20, c)
	}
	member := false
	arity := false
	for _, cand := range VerifSupported() {
		cls, ok := verifRefArity[cand]
		verifrt.Assert(ok, "reference_table_covers_documented_command")
		if len(cand) != L {
			continue
		}
		m := true
		for i := 0; i < L; i++ {
			m = verifrt.And(m, lower[i] == cand[i])
		}
		member = verifrt.Or(member, m)
		aok := false
		switch cls {
		case 'z':
			aok = n == 0
		case '1', '2', '3', '4':
			aok = n == int(cls-'0')
		case 'n':
			aok = n >= 1
		case 'e':
			aok = verifrt.And(n >= 2, n%2 == 0)
		}
		arity = verifrt.Or(arity, verifrt.And(m, aok))
	}
	verifrt.ObserveInt("type", int(got))
	back := Transform2Str(got)
	sameName := len(back) == L
	for i := 0; sameName && i < L; i++ {
		sameName = verifrt.And(sameName, back[i] == lower[i])
	}
	verifrt.Assert(verifrt.Implies(verifrt.Not(member), got == UNKNOWN), "undocumented_name_is_unknown")
	verifrt.Assert(verifrt.Implies(verifrt.And(member, verifrt.Not(arity)), got == ReqWrongArgumentsNumber), "bad_arity_rejected")
	verifrt.Assert(verifrt.Implies(verifrt.And(member, arity), verifrt.And(got > UNKNOWN, verifrt.And(got < ReqTooLarge, sameName))), "documented_command_accepted_as_itself")
	verifrt.Cover("end", true)
}

// HarnessC17Tables: the three command maps are mutually consistent (concrete check over the maps).
func HarnessC17Tables() {
	for name, t := range CommandStr2Type {
		verifrt.Assert(CommandType2Str[t] == name, "str2type_type2str_inverse")
		_, ok := CommandType2ArgsNumber[t]
		verifrt.Assert(ok, "every_command_has_an_arity_row")
		for i := 0; i < len(name); i++ {
			verifrt.Assert(name[i] < 'A' || name[i] > 'Z', "table_names_are_lower_case")
		}
		_, ok = verifRefArity[name]
		verifrt.Assert(ok, "table_command_is_in_reference")
		verifrt.Assert(t > UNKNOWN && t < ReqTooLarge, "request_type_range")
	}
	verifrt.Assert(len(CommandStr2Type) == len(CommandType2Str), "same_size")
	verifrt.Assert(len(CommandStr2Type) == len(VerifSupported()), "table_size_equals_documented_set")
	verifrt.Cover("end", true)
}

func init() {
	verifrt.Register("HarnessC17Near", func(p []int64) { HarnessC17Near(int(p[0])) })
	verifrt.Register("HarnessC17Name", func(p []int64) { HarnessC17Name(int(p[0])) })
	verifrt.Register("HarnessC17Tables", func(p []int64) { HarnessC17Tables() })
}

func VerifRefArityOf(name string) byte { return verifRefArity[name] }
