//go:build verif

package server

import (
	"rcproxy/core"
	"rcproxy/core/authip"
	"rcproxy/verifrt"
)

// HarnessC18Admit: with the whitelist loaded from a solver-chosen file content, a connection from a
// solver-chosen source address is either served or closed without a single byte of reply, and
// nothing it sent is acted on.
func HarnessC18Admit() {
	a := authip.VerifNewAuthIp()
	enable, listed := authip.VerifReload(a)
	w, _ := verifWorld2(core.VerifDefaultOptions())
	src := verifrt.Choice("source", 4)
	addrs := []string{"10.0.0.1:4000", "10.0.0.2:4000", "10.0.0.3:4000", "172.16.0.9:4000"}
	admit := !enable || (src < 3 && listed[src])
	c := w.NewClient(addrs[src])
	verifrt.ObserveBool("open", c.Opened())
	verifrt.Assert(c.Opened() == admit, "admitted_iff_listed_or_disabled")
	w.Feed(c, []byte("*1\r\n$4\r\nping\r\n*2\r\n$3\r\nget\r\n$1\r\nb\r\n"))
	w.RunTasks()
	out := w.Sent(c)
	if admit {
		verifrt.Assert(string(out) == "+PONG\r\n", "admitted_client_is_served")
		verifrt.Assert(len(w.Servers) == 1, "admitted_request_forwarded")
	} else {
		verifrt.Assert(len(out) == 0, "rejected_client_gets_no_reply")
		verifrt.Assert(len(w.Servers) == 0, "rejected_client_bytes_not_forwarded")
		verifrt.Assert(w.PeerClosed(c), "rejected_connection_is_closed")
	}
	verifrt.Cover("end", true)
}

func init() {
	verifrt.Register("HarnessC18Admit", func(p []int64) { HarnessC18Admit() })
}
