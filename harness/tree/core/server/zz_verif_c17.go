//go:build verif

package server

import (
	"bytes"

	"rcproxy/core"
	"rcproxy/core/codec"
	"rcproxy/verifrt"
)

func verifBytesEq(a, b []byte) bool {
	if len(a) != len(b) {
		return false
	}
	r := true
	for i := range a {
		r = verifrt.And(r, a[i] == b[i])
	}
	return r
}

func verifEqFold(a []byte, lower string) bool {
	if len(a) != len(lower) {
		return false
	}
	r := true
	for i := range a {
		c := a[i]
		lc := verifrt.IteByte(verifrt.And(c >= 'A', c <= 'Z'), c|0x20, c)
		r = verifrt.And(r, lc == lower[i])
	}
	return r
}

func verifCaseMix(label, lower string) []byte {
	out := make([]byte, len(lower))
	for i := range out {
		up := verifrt.Bool(label)
		c := lower[i]
		if c >= 'a' && c <= 'z' {
			out[i] = verifrt.IteByte(up, c&^0x20, c)
		} else {
			out[i] = c
		}
	}
	return out
}

var verifUnknownNames = []string{"keys", "flushall", "select", "cluster", "getx", "g"}

// HarnessC17Admit: one request <cmd> with n one-byte arguments, cmd ranging over every documented
// command (any letter case) and a few undocumented ones, followed in the same read by "GET b".
// pw: 0 = no password configured, 1 = password "p".
func HarnessC17Admit(n, pw int) { verifC17Admit(n, pw, 0) }

// HarnessC17AdmitHist: as HarnessC17Admit, for a client that connects after another one went away in the
// middle of a request (cut inside a bulk argument of announced length 100): hist 1 = the earlier client
// disconnected (the new one gets its descriptor number), hist 2 = it is still connected.
func HarnessC17AdmitHist(n, hist int) { verifC17Admit(n, 0, hist) }

func verifC17Admit(n, pw, hist int) {
	var sopts []Option
	if pw == 1 {
		sopts = append(sopts, WithRedisPassword("p"))
	}
	o := core.VerifDefaultOptions()
	w, _ := verifWorld2(o, sopts...)
	// the backend handshake is not under test here: connections come up initialised
	authCmd = ""
	if hist > 0 {
		old := w.NewClient("10.0.0.7:5000")
		w.Feed(old, []byte("*3\r\n$3\r\nset\r\n$1\r\nk\r\n$100\r\nab"))
		w.Feed(old, []byte("cd"))
		verifrt.Assert(old.Opened() && len(w.Sent(old)) == 0 && len(w.Servers) == 0, "prefix_of_request_not_acted_on")
		if hist == 1 {
			w.HangUp(old)
		}
	}
	c := w.NewClient("10.0.0.1:5000")
	sup := codec.VerifSupported()
	idx := verifrt.Choice("cmd", len(sup)+len(verifUnknownNames))
	var lower string
	known := idx < len(sup)
	if known {
		lower = sup[idx]
	} else {
		lower = verifUnknownNames[idx-len(sup)]
	}
	args := [][]byte{verifCaseMix("case", lower)}
	for i := 0; i < n; i++ {
		args = append(args, verifrt.Bytes("arg", 1))
	}
	req := core.VerifEncode(args...)
	second := []byte("*2\r\n$3\r\nget\r\n$1\r\nb\r\n")
	w.Feed(c, append(append([]byte{}, req...), second...))
	w.RunTasks()

	arityOK := false
	if known {
		arityOK = codec.VerifArityOK(codec.VerifRefArityOf(lower), n)
		if (lower == "eval" || lower == "evalsha") && n < 3 {
			arityOK = false // script, numkeys and at least one key are needed to route it
		}
	}
	out := w.Sent(c)
	verifrt.ObserveBytes("client", out)
	verifrt.ObserveBool("open", c.Opened())

	// gather what went to the backends
	var all [][][]byte
	for _, s := range w.Servers {
		st, reqs := core.VerifRedisParse(w.Sent(s))
		verifrt.Assert(st == core.VerifRedisOK, "backend_stream_well_formed")
		all = append(all, reqs...)
	}
	count := func(name string) (k, nargs int) {
		for _, r := range all {
			if string(bytes.ToLower(append([]byte{}, r[0]...))) == name {
				k++
				nargs += len(r) - 1
			}
		}
		return
	}
	local := func(reply string, closes bool) {
		// answered by the proxy: exact reply bytes first, nothing of this request forwarded
		verifrt.Assert(len(out) >= len(reply) && verifBytesEq(out[:len(reply)], []byte(reply)), "local_reply_bytes")
		if lower != "get" {
			k, _ := count(lower)
			verifrt.Assert(k == 0, "rejected_or_local_request_not_forwarded")
		}
		if closes {
			verifrt.Assert(!c.Opened(), "quit_closes")
			verifrt.Assert(len(all) == 0, "nothing_forwarded_after_quit")
			return
		}
		verifrt.Assert(len(out) == len(reply), "no_stray_bytes_after_local_reply")
		verifrt.Assert(c.Opened(), "connection_stays_open")
		k, na := count("get")
		verifrt.Assert(k == 1 && na == 1 && len(all) == 1, "following_request_unaffected")
	}
	switch {
	case !known:
		local("-ERR unknown command\r\n", false)
	case !arityOK:
		local("-ERR wrong number of arguments\r\n", false)
	case lower == "ping":
		local("+PONG\r\n", false)
	case lower == "quit":
		local("+OK\r\n", true)
	case lower == "auth":
		if pw == 0 {
			local("-ERR Client sent AUTH, but no password is set\r\n", false)
		} else {
			good := args[1][0] == 'p'
			if good {
				local("+OK\r\n", false)
			} else {
				local("-ERR invalid password\r\n", false)
			}
		}
	default:
		// served by forwarding: nothing answered yet, the request is at the backends, complete
		verifrt.Assert(len(out) == 0, "forwarded_request_not_answered_locally")
		verifrt.Assert(c.Opened(), "connection_stays_open")
		k, na := count(lower)
		if lower == "get" {
			verifrt.Assert(k == 2 && na == 2, "both_requests_forwarded")
		} else {
			verifrt.Assert(k >= 1 && na == n, "request_forwarded_with_all_arguments")
			kg, _ := count("get")
			verifrt.Assert(kg == 1 && len(all) == k+1, "following_request_unaffected")
		}
	}
	verifrt.Assert(!w.Shutdown, "proxy_keeps_running")
	verifrt.Cover("end", true)
}

// HarnessC17Size: two requests in one read, "SET k <a1 bytes>" and "GET <a2 bytes>", with the
// request size limit an arbitrary value in [lo,hi]. Each request is refused iff ITS OWN encoded
// size exceeds the limit.
func HarnessC17Size(a1, a2, lo, hi int) {
	limit := verifrt.Int("limit", lo, hi)
	o := core.VerifDefaultOptions()
	o.RedisMsgMaxLength = limit
	w, _ := verifWorld2(o)
	c := w.NewClient("10.0.0.1:5000")
	v := verifrt.Bytes("val", a1)
	k2 := verifrt.Bytes("key2", a2)
	r1 := core.VerifEncode([]byte("set"), []byte("b"), v)
	r2 := core.VerifEncode([]byte("get"), k2)
	w.Feed(c, append(append([]byte{}, r1...), r2...))
	w.RunTasks()
	const tooLarge = "-ERR req msg length too large\r\n"
	big1, big2 := len(r1) > limit, len(r2) > limit
	verifrt.ObserveBool("big1", big1)
	verifrt.ObserveBool("big2", big2)
	// A refusal is this request's reply and keeps its place in the pipeline: while an earlier request is
	// still at its backend nothing may overtake it. So the backends answer first (SET: +OK, GET: the key).
	early := w.Sent(c)
	if !big1 {
		verifrt.Assert(len(early) == 0, "refusal_does_not_overtake_the_request_before_it")
	}
	for _, s := range w.SortedServers() {
		_, reqs := core.VerifRedisParse(w.Sent(s))
		for _, r := range reqs {
			w.Feed(s, replyFor(r))
		}
	}
	out := w.Sent(c)
	verifrt.ObserveBytes("client", out)
	var want []byte
	if big1 {
		want = append(want, tooLarge...)
	} else {
		want = append(want, "+OK\r\n"...)
	}
	if big2 {
		want = append(want, tooLarge...)
	} else {
		want = append(want, bulk(k2)...)
	}
	verifrt.Assert(len(out) == len(want), "one_reply_per_request_too_large_error_iff_oversized")
	verifrt.Assert(verifBytesEq(out, want), "one_reply_per_request_too_large_error_iff_oversized")
	var sets, gets int
	for _, s := range w.Servers {
		st, reqs := core.VerifRedisParse(w.Sent(s))
		verifrt.Assert(st == core.VerifRedisOK, "backend_stream_well_formed")
		for _, r := range reqs {
			switch string(r[0]) {
			case "set":
				sets++
			case "get":
				gets++
			}
		}
	}
	verifrt.Assert((sets == 1) == !big1 && sets <= 1, "first_request_served_iff_within_limit")
	verifrt.Assert((gets == 1) == !big2 && gets <= 1, "second_request_served_iff_within_limit")
	verifrt.Cover("end", true)
}

// HarnessC17RspSize: a backend reply of rl payload bytes against an arbitrary reply limit.
func HarnessC17RspSize(rl, lo, hi int) {
	limit := verifrt.Int("limit", lo, hi)
	o := core.VerifDefaultOptions()
	w, _ := verifWorld2(o)
	w.SetLimits(1<<20, limit)
	c := w.NewClient("10.0.0.1:5000")
	w.Feed(c, []byte("*2\r\n$3\r\nget\r\n$1\r\nb\r\n"))
	w.RunTasks()
	verifrt.Assume(len(w.Servers) == 1)
	// a second client has a request in flight behind it on the same backend connection
	c2 := w.NewClient("10.0.0.2:5000")
	w.Feed(c2, []byte("*2\r\n$3\r\nget\r\n$1\r\nb\r\n"))
	w.RunTasks()
	verifrt.Assert(len(w.Servers) == 1, "one_backend_connection")
	payload := verifrt.Bytes("payload", rl)
	reply := core.VerifEncode(payload)[4:] // "$<rl>\r\n<payload>\r\n"
	if verifrt.Choice("both_replies_in_one_read", 2) == 1 {
		w.Feed(w.Servers[0], append(append([]byte{}, reply...), "+K\r\n"...))
	} else {
		w.Feed(w.Servers[0], reply)
		w.Feed(w.Servers[0], []byte("+K\r\n"))
	}
	out := w.Sent(c)
	verifrt.ObserveBytes("client", out)
	if len(reply) > limit {
		verifrt.Assert(bytes.Equal(out, []byte("-ERR rsp msg length too large\r\n")), "oversized_reply_replaced_by_error")
	} else {
		verifrt.Assert(verifBytesEq(out, reply), "reply_within_limit_passes")
	}
	// whatever happened to the first reply, the backend stream stays aligned: the next request gets its own reply
	if 4 > limit { // the second reply (4 bytes) is itself above the limit
		verifrt.Assert(bytes.Equal(w.Sent(c2), []byte("-ERR rsp msg length too large\r\n")) && c2.Opened() && c.Opened(), "next_request_on_the_connection_gets_its_own_reply")
	} else {
		verifrt.Assert(bytes.Equal(w.Sent(c2), []byte("+K\r\n")) && c2.Opened() && c.Opened(), "next_request_on_the_connection_gets_its_own_reply")
	}
	verifrt.Cover("end", true)
}

func init() {
	verifrt.Register("HarnessC17AdmitHist", func(p []int64) { HarnessC17AdmitHist(int(p[0]), int(p[1])) })
	verifrt.Register("HarnessC17Admit", func(p []int64) { HarnessC17Admit(int(p[0]), int(p[1])) })
	verifrt.Register("HarnessC17Size", func(p []int64) { HarnessC17Size(int(p[0]), int(p[1]), int(p[2]), int(p[3])) })
	verifrt.Register("HarnessC17RspSize", func(p []int64) { HarnessC17RspSize(int(p[0]), int(p[1]), int(p[2])) })
}
