//go:build verif

package server

import (
	"bytes"

	"rcproxy/core"
	"rcproxy/verifrt"
)

// HarnessC12: a client sends L arbitrary bytes (cut into two reads at position cut when
// 0 < cut < L). Obligations: the proxy does not crash (any feasible Go panic is reported by the
// engine); everything that reached a backend is a sequence of complete requests Redis accepts;
// input that Redis would refuse with a protocol error leaves the connection closed or answered with
// an error (not parked); a second client is then served normally.
func HarnessC12(L, cut int) {
	in := verifrt.Bytes("in", L)
	verifC12(in, cut)
}

// HarnessC12Shape: a GET-shaped request whose count field (cw bytes), length fields (lw and lw2
// bytes), command name (3 bytes) and key (klen bytes) are arbitrary; CR/LF and the '*'/'$' markers are
// fixed. It reaches the non-canonical / negative / signed / padded spellings of counts and lengths
// that need more bytes than the raw-input bound allows.
func HarnessC12Shape(cw, lw, lw2, cut, klen int) {
	var in []byte
	in = append(in, '*')
	in = append(in, verifrt.Bytes("count", cw)...)
	in = append(in, "\r\n$"...)
	in = append(in, verifrt.Bytes("len1", lw)...)
	in = append(in, "\r\n"...)
	in = append(in, verifrt.Bytes("name", 3)...)
	in = append(in, "\r\n$"...)
	in = append(in, verifrt.Bytes("len2", lw2)...)
	in = append(in, "\r\n"...)
	in = append(in, verifrt.Bytes("key", klen)...)
	in = append(in, "\r\n"...)
	verifC12(in, cut)
}

// HarnessC12Len: "GET <key>" whose key length field is `digits` arbitrary DECIMAL DIGITS (everything
// else is fixed, the payload after it is `pay` arbitrary bytes). It reaches the huge lengths: values
// next to 2^63, values that wrap around 2^64 onto small numbers, lengths far beyond what is buffered.
func HarnessC12Len(digits, pay int) {
	d := verifrt.Bytes("len", digits)
	ok := true
	for _, x := range d {
		ok = verifrt.And(ok, verifrt.And(x >= '0', x <= '9'))
	}
	verifrt.Assume(ok)
	var in []byte
	in = append(in, "*2\r\n$3\r\nget\r\n$"...)
	in = append(in, d...)
	in = append(in, "\r\n"...)
	in = append(in, verifrt.Bytes("payload", pay)...)
	in = append(in, "\r\n"...)
	verifC12(in, 0)
}

// HarnessC12Cmd: the other branches of the request decoder. A well-formed MGET / MSET / DEL / EVAL
// request in which ONE field - the argument count, one bulk length, the numkeys argument of EVAL, a key -
// is replaced by `wd` arbitrary bytes (`which` numbers the fields from the left, -1: every field in turn; the '*', '$' and CRLF
// markers stay). Same obligations as HarnessC12.
//   kind 0: MGET a b   1: MSET a x b y   2: DEL a b   3: EVAL s 1 k   4: EVAL s 2 k j x
func HarnessC12Cmd(kind, which, wd, cut int) {
	var args []string
	switch kind {
	case 0:
		args = []string{"mget", "a", "b"}
	case 1:
		args = []string{"mset", "a", "x", "b", "y"}
	case 2:
		args = []string{"del", "a", "b"}
	case 3:
		args = []string{"eval", "s", "1", "k"}
	case 4:
		args = []string{"eval", "s", "2", "k", "j", "x"}
	}
	// fields: 0 = count, then (length, payload) per argument
	fields := []string{vItoa(len(args))}
	for _, a := range args {
		fields = append(fields, vItoa(len(a)), a)
	}
	if which < 0 {
		which = verifrt.Choice("field_replaced", len(fields))
	}
	var in []byte
	for i, f := range fields {
		switch {
		case i == 0:
			in = append(in, '*')
		case i%2 == 1:
			in = append(in, '$')
		}
		if i == which {
			in = append(in, verifrt.Bytes("field", wd)...)
		} else {
			in = append(in, f...)
		}
		in = append(in, '\r', '\n')
	}
	verifC12(in, cut)
}

// HarnessC12Pipe: the first client is not malformed but unusual: well-formed pipelines that end the
// connection or mix locally answered and forwarded requests (QUIT behind a request still waiting for its
// backend, requests after QUIT, PING and an unknown command in front of a forwarded one). The bystander
// must be served - and stay connected - exactly as after any other client.
//   0: GET b, QUIT    1: PING, QUIT    2: QUIT    3: GET b, QUIT, GET b    4: PING, KEYS *, GET b    5: GET b, GET (no key), QUIT
func HarnessC12Pipe(kind, cut int) {
	get := core.VerifEncode([]byte("get"), []byte("b"))
	quit := core.VerifEncode([]byte("quit"))
	ping := core.VerifEncode([]byte("ping"))
	if kind < 0 {
		kind = verifrt.Choice("pipeline", 6)
	}
	var parts [][]byte
	switch kind {
	case 0:
		parts = [][]byte{get, quit}
	case 1:
		parts = [][]byte{ping, quit}
	case 2:
		parts = [][]byte{quit}
	case 3:
		parts = [][]byte{get, quit, get}
	case 4:
		parts = [][]byte{ping, core.VerifEncode([]byte("keys"), []byte("*")), get}
	case 5:
		parts = [][]byte{get, core.VerifEncode([]byte("get")), quit}
	}
	var in []byte
	for _, p := range parts {
		in = append(in, p...)
	}
	if cut < 0 {
		cut = verifrt.Concretize(verifrt.Int("cut", 0, len(in)-1)) // 0: one read
	}
	verifC12(in, cut)
}

func verifC12(in []byte, cut int) {
	L := len(in)
	w, _ := verifWorld2(core.VerifDefaultOptions())
	bad := w.NewClient("10.0.0.9:999")
	if cut > 0 && cut < L {
		w.Feed(bad, in[:cut])
		w.RunTasks()
		w.Feed(bad, in[cut:])
	} else {
		w.Feed(bad, in)
	}
	w.RunTasks()

	st, _ := core.VerifRedisParse(in)
	verifrt.ObserveInt("redis_status", st)
	reply := w.Sent(bad)
	closed := !bad.Opened()
	verifrt.ObserveBool("closed", closed)
	verifrt.ObserveBytes("reply", reply)

	// what the backends received
	for _, s := range w.Servers {
		got := w.Sent(s)
		bst, reqs := core.VerifRedisParse(got)
		verifrt.Assert(bst == core.VerifRedisOK, "backend_received_only_complete_valid_requests")
		verifrt.Assert(len(got) == 0 || len(reqs) >= 1, "backend_received_whole_requests")
	}
	sst, _ := core.VerifStrictScan(in)
	verifrt.ObserveInt("strict_status", sst)
	// offending = Redis would refuse it AND the refusal is visible on a complete line/payload
	if (st == core.VerifRedisError || st == core.VerifRedisEmpty) && sst == core.VerifScanMalformed {
		answered := len(reply) > 0 && reply[0] == '-'
		verifrt.Assert(closed || answered, "protocol_error_is_answered_or_closed")
	}
	verifrt.Assert(!w.Shutdown, "proxy_keeps_running")

	// the bystander
	ok := w.NewClient("10.0.0.1:5000")
	nsrv := len(w.Servers)
	var before []int
	for _, s := range w.Servers {
		before = append(before, len(w.Sent(s)))
	}
	w.Feed(ok, []byte("*2\r\n$3\r\nget\r\n$1\r\nb\r\n"))
	w.RunTasks()
	// "b" is slot 3300 -> A:1
	var target *core.VerifConn
	for i, s := range w.Servers {
		prev := 0
		if i < nsrv {
			prev = before[i]
		}
		if len(w.Sent(s)) > prev {
			verifrt.Assert(target == nil, "bystander_request_forwarded_once")
			target = s
			verifrt.Assert(s.Addr == "A:1", "bystander_request_routed_to_owner")
			verifrt.Assert(bytes.Equal(w.Sent(s)[prev:], []byte("*2\r\n$3\r\nget\r\n$1\r\nb\r\n")), "bystander_request_bytes")
		}
	}
	verifrt.Assert(target != nil, "bystander_request_forwarded")
	// the backend answers everything it has been asked so far, in order; the bystander's is last
	_, reqs := core.VerifRedisParse(w.Sent(target))
	for i := 0; i < len(reqs)-1; i++ {
		// (a reply of the shape a Redis node gives to that command: an array to MGET, an integer to DEL ...)
		w.Feed(target, replyFor(lowerArgs(reqs[i])))
	}
	w.Feed(target, []byte("$2\r\nhi\r\n"))
	verifrt.Assert(bytes.Equal(w.Sent(ok), []byte("$2\r\nhi\r\n")), "bystander_served")
	// ... and goes on being served: by now every request object the offender used has been recycled
	for round := 0; round < 2; round++ {
		verifrt.Assert(ok.Opened() && target.Opened(), "bystander_connection_stays_open")
		w.Feed(ok, []byte("*2\r\n$3\r\nget\r\n$1\r\nb\r\n"))
		w.RunTasks()
		w.Feed(target, []byte("$2\r\nho\r\n"))
	}
	verifrt.Assert(bytes.Equal(w.Sent(ok), []byte("$2\r\nhi\r\n$2\r\nho\r\n$2\r\nho\r\n")) && ok.Opened(), "bystander_served_again_and_again")
	// ... also with a pipeline of four requests, which takes four request objects out of the pool at once
	// (the pool hands out the most recently recycled first: the bystander's own, then the offender's)
	one := []byte("*2\r\n$3\r\nget\r\n$1\r\nb\r\n")
	w.Feed(ok, append(append(append(append([]byte{}, one...), one...), one...), one...))
	w.RunTasks()
	for i := 0; i < 4; i++ {
		w.Feed(target, []byte("$2\r\nh"+string(rune('1'+i))+"\r\n"))
	}
	verifrt.Assert(bytes.Equal(w.Sent(ok), []byte("$2\r\nhi\r\n$2\r\nho\r\n$2\r\nho\r\n$2\r\nh1\r\n$2\r\nh2\r\n$2\r\nh3\r\n$2\r\nh4\r\n")) && ok.Opened(), "bystander_pipeline_served_connection_open")
	verifrt.Cover("end", true)
}

// lowerArgs: the request with its command name in lower case (what replyFor switches on).
func lowerArgs(g [][]byte) [][]byte {
	out := append([][]byte{}, g...)
	out[0] = bytes.ToLower(append([]byte{}, g[0]...))
	return out
}

func anyBytes(w *core.VerifWorld) bool {
	for _, s := range w.Servers {
		if len(w.Sent(s)) > 0 {
			return true
		}
	}
	return false
}

func init() {
	verifrt.Register("HarnessC12Pipe", func(p []int64) { HarnessC12Pipe(int(p[0]), int(p[1])) })
	verifrt.Register("HarnessC12Cmd", func(p []int64) { HarnessC12Cmd(int(p[0]), int(p[1]), int(p[2]), int(p[3])) })
	verifrt.Register("HarnessC12Len", func(p []int64) { HarnessC12Len(int(p[0]), int(p[1])) })
	verifrt.Register("HarnessC12", func(p []int64) { HarnessC12(int(p[0]), int(p[1])) })
	verifrt.Register("HarnessC12Shape", func(p []int64) { HarnessC12Shape(int(p[0]), int(p[1]), int(p[2]), int(p[3]), int(p[4])) })
}
