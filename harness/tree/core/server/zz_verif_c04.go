//go:build verif

package server

import (
	"rcproxy/core"
	"rcproxy/core/codec"
	"rcproxy/verifrt"
)

// Commands that only read (Redis command reference, flag "readonly"), minus the cursor scans, which
// the property sends to the master. Everything not listed must go to the master.
var verifReadOnly = map[string]bool{
	"exists": true, "ttl": true, "pttl": true, "type": true, "dump": true, "bitcount": true, "get": true, "getbit": true,
	"getrange": true, "mget": true, "strlen": true, "hexists": true, "hget": true, "hgetall": true, "hkeys": true, "hlen": true,
	"hmget": true, "hvals": true, "lindex": true, "llen": true, "lrange": true, "srandmember": true, "sdiff": true, "sinter": true,
	"scard": true, "sismember": true, "smembers": true, "zcard": true, "zcount": true, "zlexcount": true, "zrange": true,
	"zrangebylex": true, "zrangebyscore": true, "zrank": true, "zrevrange": true, "zrevrangebyscore": true, "zrevrank": true,
	"zscore": true, "sunion": true, "pfcount": true,
}

type vSet struct {
	lo, hi int
	master string
	slaves []string
}

// three replica sets over ranges with a gap (slots 100..199 unowned)
func verifTopology(nslaves int) []vSet {
	sets := []vSet{{0, 99, "A:1", nil}, {200, 8191, "B:1", nil}, {8192, 16383, "C:1", nil}}
	names := [][]string{{"A:2", "A:3"}, {"B:2", "B:3"}, {"C:2", "C:3"}}
	for i := range sets {
		sets[i].slaves = names[i][:nslaves]
	}
	return sets
}

func verifWorld3(o *core.Options, nslaves int, sopts ...Option) (*core.VerifWorld, *listenServer, []vSet) {
	ls := NewListenServer(sopts...)
	authCmd = ""
	ls.OnBoot(core.Engine{})
	w := core.VerifNewWorld(ls, o)
	sets := verifTopology(nslaves)
	for _, s := range sets {
		w.AddPool(s.master, false)
		for _, sl := range s.slaves {
			w.AddPool(sl, true)
		}
		w.SetSlots(s.lo, s.hi, s.master, s.slaves...)
	}
	return w, ls, sets
}

// HarnessC04: one request <cmd> key args... with cmd over all forwarded commands and the key two
// arbitrary bytes (so the slot is the real CRC of arbitrary data); topology of three replica sets
// with nslaves replicas each and an unowned gap.
//   disable: replica reads disabled ; pw: backend password "p" configured
func HarnessC04(nslaves, disable, pw int) {
	var sopts []Option
	o := core.VerifDefaultOptions()
	if disable == 1 {
		sopts = append(sopts, WithDisableRedisSlave(true))
	}
	if pw == 1 {
		sopts = append(sopts, WithRedisPassword("p"))
		o.RedisPasswd = "p"
	}
	w, _, sets := verifWorld3(o, nslaves, sopts...)
	c := w.NewClient("10.0.0.1:5000")

	var names []string
	for _, n := range codec.VerifSupported() {
		if n != "ping" && n != "quit" && n != "auth" && n != "mget" && n != "del" && n != "mset" {
			names = append(names, n)
		}
	}
	name := names[verifrt.Choice("cmd", len(names))]
	key := verifrt.Bytes("key", 2)
	nargs := 1
	switch codec.VerifRefArityOf(name) {
	case '2':
		nargs = 2
	case '3':
		nargs = 3
	case '4':
		nargs = 4
	}
	var args [][]byte
	if name == "eval" || name == "evalsha" {
		args = [][]byte{[]byte(name), []byte("s"), []byte("1"), key}
	} else {
		args = [][]byte{[]byte(name), key}
		for i := 1; i < nargs; i++ {
			args = append(args, []byte("x"))
		}
	}
	req := core.VerifEncode(args...)
	w.Feed(c, req)
	w.RunTasks()

	slot := core.VerifSpecSlotOf(key)
	verifrt.ObserveInt("slot", slot)
	var owner *vSet
	for i := range sets {
		if slot >= sets[i].lo && slot <= sets[i].hi {
			owner = &sets[i]
		}
	}
	out := w.Sent(c)
	if owner == nil {
		verifrt.Assert(string(out) == "-ERR unknown slot\r\n", "unowned_slot_answered_with_error")
		verifrt.Assert(len(w.Servers) == 0, "unowned_slot_nothing_forwarded")
		verifrt.Cover("end", true)
		return
	}
	verifrt.Assert(len(out) == 0, "forwarded_not_answered_locally")
	verifrt.Assert(len(w.Servers) == 1, "exactly_one_backend_connection")
	s := w.Servers[0]
	verifrt.ObserveStr("target", s.Addr)
	isMaster := s.Addr == owner.master
	isSlave := false
	for _, sl := range owner.slaves {
		if s.Addr == sl {
			isSlave = true
		}
	}
	verifrt.Assert(isMaster || isSlave, "routed_to_the_replica_set_owning_the_slot")
	if !verifReadOnly[name] || disable == 1 {
		verifrt.Assert(isMaster, "writes_scans_scripts_go_to_the_master")
	}
	// handshake precedes the request
	want := []byte{}
	if pw == 1 {
		want = append(want, "*2\r\n$4\r\nauth\r\n$1\r\np\r\n"...)
	}
	if isSlave {
		want = append(want, "*1\r\n$8\r\nREADONLY\r\n"...)
	}
	want = append(want, req...)
	got := w.Sent(s)
	verifrt.Assert(len(got) == len(want), "backend_bytes_are_handshake_then_request")
	ok := true
	for i := range want {
		ok = verifrt.And(ok, got[i] == want[i])
	}
	verifrt.Assert(ok, "backend_bytes_are_handshake_then_request")
	verifrt.Cover("end", true)
}

// HarnessC20: route() for a read on a slot whose master has k replicas, some of them banned.
// For every replica that is not banned there must be a value of the random source that selects it.
func HarnessC20(k, bannedMask int) {
	o := core.VerifDefaultOptions()
	w, ls, sets := verifWorld3(o, k)
	owner := sets[1]
	for j, sl := range owner.slaves {
		if bannedMask&(1<<j) != 0 {
			core.VerifBan(sl)
		}
	}
	r := &core.Msg{Type: codec.ReqGet}
	addr, _ := ls.route(r, int32(verifrt.Int("slot", owner.lo, owner.hi)))
	verifrt.ObserveStr("addr", addr)
	healthy := 0
	for j, sl := range owner.slaves {
		if bannedMask&(1<<j) == 0 {
			healthy++
			verifrt.Goal("replica_" + sl)
			verifrt.Cover("replica_"+sl, addr == sl)
		}
	}
	ok := addr == owner.master
	for _, sl := range owner.slaves {
		ok = ok || addr == sl
	}
	verifrt.Assert(ok, "read_routed_inside_owner_set")
	// writes are unaffected
	wr := &core.Msg{Type: codec.ReqSet}
	waddr, _ := ls.route(wr, int32(owner.lo))
	verifrt.Assert(waddr == owner.master, "write_goes_to_master")
	_ = w
	verifrt.Cover("end", true)
}

// HarnessC20Run: a run of L reads, each for a slot of master X (k replicas, some banned) or of another
// master Y, in a pattern chosen by the solver (for ALL patterns), with the random source chosen by the
// solver (for SOME values): in every pattern that sends at least as many reads to X as X has healthy
// replicas, every healthy replica of X can be the one that serves some read of the run. A selection
// policy that is deterministic but fair (round robin per master) satisfies this as well; one whose
// choice for X depends on the traffic for Y does not.
func HarnessC20Run(k, bannedMask, L int) {
	o := core.VerifDefaultOptions()
	_, ls, sets := verifWorld3(o, k)
	x, y := sets[1], sets[2]
	for j, sl := range x.slaves {
		if bannedMask&(1<<j) != 0 {
			core.VerifBan(sl)
		}
	}
	healthy := 0
	for j := range x.slaves {
		if bannedMask&(1<<j) == 0 {
			healthy++
		}
	}
	pattern := ""
	nx := 0
	served := map[string]bool{}
	for i := 0; i < L; i++ {
		r := &core.Msg{Type: codec.ReqGet}
		if verifrt.Choice("read_for_master_X", 2) == 1 {
			pattern += "X"
			nx++
			addr, _ := ls.route(r, int32(x.lo))
			ok := addr == x.master
			for j, sl := range x.slaves {
				ok = ok || addr == sl
				verifrt.Assert(addr != sl || bannedMask&(1<<j) == 0, "banned_replica_not_chosen")
			}
			verifrt.Assert(ok, "read_routed_inside_owner_set")
			served[addr] = true
		} else {
			pattern += "Y"
			addr, _ := ls.route(r, int32(y.lo))
			ok := addr == y.master
			for _, sl := range y.slaves {
				ok = ok || addr == sl
			}
			verifrt.Assert(ok, "read_routed_inside_owner_set")
		}
		wr := &core.Msg{Type: codec.ReqSet}
		waddr, _ := ls.route(wr, int32(x.lo))
		verifrt.Assert(waddr == x.master, "write_goes_to_master")
	}
	if nx >= healthy && nx > 0 {
		for j, sl := range x.slaves {
			if bannedMask&(1<<j) == 0 {
				g := "pattern_" + pattern + "_replica_" + sl
				verifrt.Goal(g)
				verifrt.Cover(g, served[sl])
			}
		}
	}
	verifrt.Cover("end", true)
}

// HarnessC20Monitor: the ban state over a history. A replica of X is healthy (its health probe
// succeeds), then goes away - noticed by a failing connect on the request path (scn 0) or by two failing
// health probes (scn 1) - and is banned; it comes back, time passes (less or more than the ban period),
// the next health probe succeeds. From then on it is a healthy replica again: reads can reach it.
func HarnessC20Monitor(scn int) {
	o := core.VerifDefaultOptions()
	w, ls, sets := verifWorld3(o, 2)
	x := sets[1]
	victim := x.slaves[0]
	core.VerifProbeDown = map[string]bool{}
	alive := core.VerifRunMonitor(victim, 1) // first probe: healthy
	verifrt.Assert(!core.EngineGlobal.ProxyPool[victim].AutoBanFlag, "healthy_replica_not_banned")
	switch scn {
	case 0:
		w.DialFail[victim] = true
		_, _, _, addr := ls.getConn(&core.Msg{Type: codec.ReqGet}, int32(x.lo))
		if addr != victim {
			verifrt.Stop() // the read went elsewhere: not the history under study
		}
		verifrt.Assert(core.EngineGlobal.ProxyPool[victim].AutoBanFlag, "unreachable_replica_is_banned")
		w.DialFail[victim] = false
	case 1:
		core.VerifProbeDown[victim] = true
		if alive {
			alive = core.VerifRunMonitor(victim, 1)
		}
		core.VerifProbeDown[victim] = false
	}
	wait := []int{100, 120000}[verifrt.Choice("time_passes", 2)]
	verifrt.Sleep(wait)
	if alive {
		core.VerifRunMonitor(victim, 1) // the next probe: healthy again
	}
	g := "recovered_replica_serves_reads_after_" + vItoa(wait) + "ms"
	verifrt.Goal(g)
	addr, _ := ls.route(&core.Msg{Type: codec.ReqGet}, int32(x.lo))
	verifrt.Cover(g, addr == victim)
	verifrt.Cover("end", true)
}

// verifTopologyMixed: replica sets with different numbers of replicas (0, 1, 2) and an unowned gap.
func verifWorldMixed(o *core.Options, sopts ...Option) (*core.VerifWorld, *listenServer, []vSet) {
	ls := NewListenServer(sopts...)
	authCmd = ""
	ls.OnBoot(core.Engine{})
	w := core.VerifNewWorld(ls, o)
	sets := []vSet{{0, 99, "A:1", nil}, {200, 8191, "B:1", []string{"B:2"}}, {8192, 16383, "C:1", []string{"C:2", "C:3"}}}
	for _, s := range sets {
		w.AddPool(s.master, false)
		for _, sl := range s.slaves {
			w.AddPool(sl, true)
		}
		w.SetSlots(s.lo, s.hi, s.master, s.slaves...)
	}
	return w, ls, sets
}

// HarnessC04Seq: n requests one after the other on one client connection, each a solver-chosen
// command of a representative set (reads, a write, a scan, a script) with an arbitrary 2-byte key,
// against replica sets that have 0, 1 and 2 replicas. Routing of EVERY request must obey the rule —
// whatever was routed before it (state carried from one routing decision to the next is the target).
func HarnessC04Seq(n, disable int) {
	var sopts []Option
	if disable == 1 {
		sopts = append(sopts, WithDisableRedisSlave(true))
	}
	w, _, sets := verifWorldMixed(core.VerifDefaultOptions(), sopts...)
	c := w.NewClient("10.0.0.1:5000")
	names := []string{"get", "set", "hscan", "eval"}
	seen := map[*core.VerifConn]int{}
	for i := 0; i < n; i++ {
		name := names[verifrt.Choice("cmd", len(names))]
		// "{x}": the slot is the CRC of one arbitrary byte (all three replica sets and the gap are reachable)
		key := []byte{'{', verifrt.Byte("key"), '}'}
		var args [][]byte
		switch name {
		case "eval":
			args = [][]byte{[]byte(name), []byte("s"), []byte("1"), key}
		case "set", "hscan", "zrange":
			args = [][]byte{[]byte(name), key, []byte("0")}
			if name == "zrange" {
				args = append(args, []byte("1"))
			}
		default:
			args = [][]byte{[]byte(name), key}
		}
		req := core.VerifEncode(args...)
		w.Feed(c, req)
		w.RunTasks()
		slot := core.VerifSpecSlotOf(key)
		var owner *vSet
		for k := range sets {
			if slot >= sets[k].lo && slot <= sets[k].hi {
				owner = &sets[k]
			}
		}
		if owner == nil {
			for _, s := range w.SortedServers() {
				verifrt.Assert(len(w.Sent(s)) == seen[s], "unowned_slot_nothing_forwarded")
			}
			continue
		}
		// which backend connection received this request?
		var target *core.VerifConn
		for _, s := range w.SortedServers() {
			got := w.Sent(s)
			if len(got) > seen[s] {
				verifrt.Assert(target == nil, "forwarded_to_exactly_one_connection")
				target = s
				tail := got[seen[s]:]
				// a fresh replica connection starts with READONLY
				ro := "*1\r\n$8\r\nREADONLY\r\n"
				if seen[s] == 0 && s.Addr != owner.master && len(tail) >= len(ro) && string(tail[:len(ro)]) == ro {
					tail = tail[len(ro):]
				}
				verifrt.Assert(verifBytesEq(tail, req), "request_bytes_unchanged")
				seen[s] = len(got)
			}
		}
		verifrt.Assert(target != nil, "request_forwarded")
		isMaster := target.Addr == owner.master
		isSlave := false
		for _, sl := range owner.slaves {
			if target.Addr == sl {
				isSlave = true
			}
		}
		verifrt.ObserveStr("target", target.Addr)
		verifrt.Assert(isMaster || isSlave, "routed_to_the_replica_set_owning_the_slot")
		if !verifReadOnly[name] || disable == 1 {
			verifrt.Assert(isMaster, "writes_scans_scripts_go_to_the_master")
		}
	}
	verifrt.Cover("end", true)
}

type verifEdge struct {
	slot int
	key  string
}

var verifEdgeKeys = []verifEdge{{0, "la2"}, {4999, "5if"}, {5000, "i37"}, {5460, "gue"}, {5461, "wr5"}, {8000, "42"}, {8001, "3ck"}, {10922, "bxv"}, {10923, "z26"}, {16383, "hia"}}

// HarnessC04Topo: routing and handshake AFTER topology changes that were installed the production way
// (CLUSTER NODES text -> the real updateClusterNodes -> the real ticker: pools added / removed /
// switched between master and replica role, slot table rebuilt). The history is: steady state T0,
// optionally a warm-up request (so that connections dialled under the OLD roles exist), then h
// solver-chosen topology changes (fail-over, fail-back of the old master as a replica, resharding, a
// master lost without promotion, slots taken from a live master), each followed by one request with a
// solver-chosen command and an arbitrary two-byte key. Every request must be routed by the LATEST
// topology: to the replica set owning the slot, by role; refused when nobody owns the slot; and the
// connection it is written on has sent AUTH (iff password) first and READONLY before it if the node is
// a replica in the latest topology. probes=1: every ticker run also sends the periodic topology probe to
// a node picked by the random source (so connections opened for probing under an old role exist too).
// anyKey=1: keys are two arbitrary bytes (slot = real CRC of arbitrary data); anyKey=0: the key is chosen
// among keys hashing to the first and last slot of every range of every topology; anyKey=2: a reduced set
// (read/write, four keys) for histories of two changes.
func HarnessC04Topo(h, pw, ntopo, probes, anyKey int) { verifC04Topo(h, pw, ntopo, probes, anyKey, 1) }

// HarnessC04TopoConns: the same with `conns` connections per backend node (redis.server_connections): the
// warm-up sends one request per connection, so all connections of the node are open under the old role.
func HarnessC04TopoConns(h, ntopo, conns int) { verifC04Topo(h, 0, ntopo, 0, 0, conns) }

func verifC04Topo(h, pw, ntopo, probes, anyKey, conns int) {
	var sopts []Option
	o := core.VerifDefaultOptions()
	o.RedisServerConnections = conns
	if pw == 1 {
		sopts = append(sopts, WithRedisPassword("p"))
		o.RedisPasswd = "p"
	}
	ls := NewListenServer(sopts...)
	authCmd = ""
	ls.OnBoot(core.Engine{})
	w := core.VerifNewWorld(ls, o)
	w.UseFakeInfo()
	w.AdoptOnTicker(probes == 1)
	cur := core.VerifTopos[0]
	if err := w.Topology(cur.Text); err != nil {
		verifrt.Assert(false, "valid_text_accepted")
	}
	w.Tick()
	w.AdoptPools()
	w.RunTasks()
	c := w.NewClient("10.0.0.1:5000")
	seen := map[*core.VerifConn]int{}
	for _, s := range w.SortedServers() {
		seen[s] = len(w.Sent(s))
	}
	answered := map[*core.VerifConn]int{}
	nsent := 0

	repeat := false
	lastName, lastKey := "", []byte(nil)
	request := func(t core.VerifTopo, warm bool) {
		names := []string{"get", "set", "hscan"}
		edges := verifEdgeKeys
		if anyKey == 2 {
			// two-change histories: a read or a write, one key per replica set plus the two range edges that move
			names = names[:2]
			edges = []verifEdge{verifEdgeKeys[0], verifEdgeKeys[3], verifEdgeKeys[4], verifEdgeKeys[9]}
		}
		if warm && anyKey == 0 {
			// the warm-up only has to leave connections behind: a read or a write per replica set
			names = names[:2]
			edges = []verifEdge{verifEdgeKeys[0], verifEdgeKeys[4], verifEdgeKeys[9]}
		}
		var name string
		var key []byte
		if repeat {
			name, key = lastName, lastKey
		} else if name = names[verifrt.Choice("cmd", len(names))]; anyKey == 1 {
			key = verifrt.Bytes("key", 2)
		} else {
			// a key for each edge of every range of every topology: first and last slot of the table,
			// both sides of every boundary that exists in some topology
			edge := edges[verifrt.Choice("edge_slot", len(edges))]
			key = []byte(edge.key)
			verifrt.Assert(core.VerifSpecSlotOf(key) == edge.slot, "harness_edge_key_has_its_slot")
		}
		lastName, lastKey = name, key
		args := [][]byte{[]byte(name), key}
		if name != "get" {
			args = append(args, []byte("0"))
		}
		req := core.VerifEncode(args...)
		before := len(w.Sent(c))
		w.Feed(c, req)
		w.RunTasks()
		nsent++
		slot := core.VerifSpecSlotOf(key)
		verifrt.ObserveInt("slot", slot)
		master := ""
		for m, rng := range t.Masters {
			if slot >= rng[0] && slot <= rng[1] {
				master = m
			}
		}
		out := w.Sent(c)[before:]
		if master == "" {
			verifrt.Assert(string(out) == "-ERR unknown slot\r\n", "unowned_slot_answered_with_error")
			for _, s := range w.SortedServers() {
				verifrt.Assert(len(w.Sent(s)) == seen[s], "unowned_slot_nothing_forwarded")
			}
			return
		}
		verifrt.Assert(len(out) == 0, "forwarded_not_answered_locally")
		var target *core.VerifConn
		for _, s := range w.SortedServers() {
			got := w.Sent(s)
			if len(got) > seen[s] {
				verifrt.Assert(target == nil, "forwarded_to_exactly_one_connection")
				target = s
				seen[s] = len(got)
			}
		}
		verifrt.Assert(target != nil, "request_forwarded")
		verifrt.ObserveStr("target", target.Addr)
		defer func() {
			// the node answers everything it has received on this connection (handshake, probe, request),
			// so the client's queue is empty again before the next step
			_, cmds := core.VerifRedisParse(w.Sent(target))
			var rsp []byte
			for _, cmd := range cmds[answered[target]:] {
				if string(cmd[0]) == "cluster" {
					rsp = append(rsp, "$4\r\nnope\r\n"...)
				} else {
					rsp = append(rsp, "+OK\r\n"...)
				}
			}
			answered[target] = len(cmds)
			w.Feed(target, rsp)
			verifrt.Assert(string(w.Sent(c)[before:]) == "+OK\r\n", "backend_reply_reaches_the_client")
		}()
		isMaster := target.Addr == master
		isSlave := t.Slaves[target.Addr] == master
		verifrt.Assert(isMaster || isSlave, "routed_to_the_replica_set_owning_the_slot_in_the_latest_topology")
		if name != "get" {
			verifrt.Assert(isMaster, "writes_and_scans_go_to_the_master_of_the_latest_topology")
		}
		verifrt.Assert(target.Opened(), "request_written_on_an_open_connection")
		// what this connection has carried so far: [AUTH] [READONLY] requests...
		_, cmds := core.VerifRedisParse(w.Sent(target))
		verifrt.Assert(len(cmds) >= 1 && verifBytesEq(core.VerifEncode(cmds[len(cmds)-1]...), req), "request_bytes_unchanged_and_last_on_the_connection")
		i := 0
		if pw == 1 {
			verifrt.Assert(len(cmds) > 1 && len(cmds[0]) == 2 && string(cmds[0][0]) == "auth" && string(cmds[0][1]) == "p", "AUTH_first_on_the_connection")
			i = 1
		}
		if isSlave {
			// the connection was switched to read-only mode at some point before this request (when it was
			// opened, or - a design that keeps connections across a role change - when the role changed)
			ro := false
			for _, cmd := range cmds[i : len(cmds)-1] {
				if len(cmd) == 1 && string(cmd[0]) == "READONLY" {
					ro = true
				}
				if len(cmd) == 1 && string(cmd[0]) == "READWRITE" {
					ro = false
				}
			}
			verifrt.Assert(ro, "READONLY_before_the_request_on_a_replica_connection")
		}
	}

	if verifrt.Choice("warm_up_request", 2) == 1 {
		request(cur, true)
		for i := 1; i < conns; i++ {
			repeat = true
			request(cur, true) // the same request again: the pool hands out (dials) its next connection
		}
		repeat = false
	}
	for step := 0; step < h; step++ {
		cur = core.VerifTopos[1+verifrt.Choice("topology", ntopo-1)]
		if err := w.Topology(cur.Text); err != nil {
			verifrt.Assert(false, "valid_text_accepted")
		}
		verifrt.Sleep(1100) // the ticker runs at most once a second
		w.Tick()
		w.AdoptPools()
		w.RunTasks() // a topology probe queued by the ticker is written now, not together with the next request
		for _, s := range w.SortedServers() {
			seen[s] = len(w.Sent(s)) // a handshake / probe on a connection used by the ticker itself
		}
		request(cur, false)
		for i := 1; i < conns; i++ {
			repeat = true
			request(cur, false) // again: the pool's next connection to that node
		}
		repeat = false
	}
	verifrt.Cover("end", true)
}

func init() {
	verifrt.Register("HarnessC04TopoConns", func(p []int64) { HarnessC04TopoConns(int(p[0]), int(p[1]), int(p[2])) })
	verifrt.Register("HarnessC04Topo", func(p []int64) { HarnessC04Topo(int(p[0]), int(p[1]), int(p[2]), int(p[3]), int(p[4])) })
	verifrt.Register("HarnessC04Seq", func(p []int64) { HarnessC04Seq(int(p[0]), int(p[1])) })
	verifrt.Register("HarnessC04", func(p []int64) { HarnessC04(int(p[0]), int(p[1]), int(p[2])) })
	verifrt.Register("HarnessC20Run", func(p []int64) { HarnessC20Run(int(p[0]), int(p[1]), int(p[2])) })
	verifrt.Register("HarnessC20Monitor", func(p []int64) { HarnessC20Monitor(int(p[0])) })
	verifrt.Register("HarnessC20", func(p []int64) { HarnessC20(int(p[0]), int(p[1])) })
}
