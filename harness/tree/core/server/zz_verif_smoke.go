//go:build verif

package server

import (
	"bytes"

	"rcproxy/core"
	"rcproxy/verifrt"
)

func verifWorld2(opts *core.Options, sopts ...Option) (*core.VerifWorld, *listenServer) {
	ls := NewListenServer(sopts...)
	authCmd = ""
	ls.OnBoot(core.Engine{})
	w := core.VerifNewWorld(ls, opts)
	w.AddPool("A:1", false)
	w.AddPool("B:1", false)
	w.SetSlots(0, 8191, "A:1")
	w.SetSlots(8192, 16383, "B:1")
	return w, ls
}

// HarnessSmoke: one GET with a symbolic 1-byte key and a symbolic 1-byte value.
func HarnessSmoke() {
	w, _ := verifWorld2(core.VerifDefaultOptions())
	c := w.NewClient("10.0.0.1:5000")
	k := verifrt.Byte("k")
	v := verifrt.Byte("v")
	req := []byte("*2\r\n$3\r\nGET\r\n$1\r\n" + string([]byte{k}) + "\r\n")
	w.Feed(c, req)
	w.RunTasks()
	verifrt.Assert(len(w.Servers) == 1, "one_backend_dialled")
	s := w.Servers[0]
	got := w.Sent(s)
	verifrt.ObserveBytes("to_backend", got)
	want := []byte("*2\r\n$3\r\nget\r\n$1\r\n" + string([]byte{k}) + "\r\n")
	verifrt.Assert(bytes.Equal(got, want), "backend_got_request")
	w.Feed(s, []byte("$1\r\n"+string([]byte{v})+"\r\n"))
	out := w.Sent(c)
	verifrt.ObserveBytes("to_client", out)
	verifrt.Assert(bytes.Equal(out, []byte("$1\r\n"+string([]byte{v})+"\r\n")), "client_got_reply")
	verifrt.ObserveStr("backend", s.Addr)
	verifrt.Cover("end", true)
}

func init() {
	verifrt.Register("HarnessSmoke", func(p []int64) { HarnessSmoke() })
}
