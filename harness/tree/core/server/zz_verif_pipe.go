//go:build verif

package server

import (
	"rcproxy/core"
	"rcproxy/verifrt"
)

// ---------------------------------------------------------------------------------------------
// Event-level harness family (C01, C03, C09, C10, C15, C16).
// Pipelines of requests of solver-chosen kinds from one or two clients are played against the real
// event loop; the solver also chooses the schedule: when each client's next bytes are read, when the
// poller runs its queued tasks, when each backend connection delivers its next reply, and (when
// enabled) when a client or a backend goes away and when time passes.
// Backends are simulated by the harness: a backend answers the oldest request it has RECEIVED ON
// THAT CONNECTION with a reply derived from the request bytes it received (an echo of the keys), so
// a reply delivered for the wrong request or to the wrong client is visible in the bytes.
// ---------------------------------------------------------------------------------------------

const (
	kGet = iota
	kSet
	kMget2 // two keys, possibly on two nodes
	kPing
	kUnknown
	kArity
	kQuit
	nKinds
)

const (
	fClientHangup = 1 << iota // a client may disconnect at any point
	fUnownedB                 // node B's slot range is unowned (requests for it get a proxy error)
	fDialFailB                // connecting to node B fails
	fBackendLoss              // a backend connection may be lost at any point
	fTimeout                  // a request timeout is configured and time may pass
	fPoolAny                  // (engine option) sync.Pool may hand out any pooled object
	fBackendErr               // a backend may answer any request with an error reply
	fSplitReplies             // a backend read may end with the first bytes of the next reply
	fWideBatches              // up to two events per descriptor while poller tasks are pending
	fProbe                    // the topology probe (CLUSTER NODES) may be sent to a node at any point
	fBatchReads               // one client read may carry two pipelined requests
	fRemoveB                  // node B may be removed from the topology at any point (its slots unowned or taken over by A)
	fMultiReplies             // one backend read may carry several complete replies
	fQuietLoss                // a backend may go away without the proxy reading EOF first: it finds out when it writes
	fLateClient               // the second client connects at some point of the schedule (after a disconnect it gets the freed descriptor number)
)

const verifTimeoutMs = 50

type vReq struct {
	kind    int
	seq     int
	bytes   []byte
	want    []byte // expected reply
	errored bool   // a backend answered (a fragment of) it with an error
}

func errFor(seq int) []byte { return []byte("-ERR boom" + string(rune('0'+seq)) + "\r\n") }

// verifKey builds a key whose slot is that of "a" (node B) or "b" (node A), which carries the
// sequence number of its request (so the harness can tell requests apart without guessing) and
// whose last byte is arbitrary: "{a}<n><x>" / "{b}<n><x>".
func verifKey(label string, tag byte, seq int) []byte {
	return []byte{'{', tag, '}', byte('0' + seq), verifrt.Byte(label)}
}

func b2i(b bool) int {
	if b {
		return 1
	}
	return 0
}

func vItoa(n int) string {
	if n < 10 {
		return string(rune('0' + n))
	}
	return vItoa(n/10) + string(rune('0'+n%10))
}

func bulk(b []byte) []byte {
	out := []byte("$" + vItoa(len(b)) + "\r\n")
	out = append(out, b...)
	return append(out, '\r', '\n')
}

func mkReq(kind, seq int) *vReq {
	r := &vReq{kind: kind, seq: seq}
	tag := func(l string) byte {
		return byte(verifrt.Concretize(int(verifrt.IteByte(verifrt.Bool(l), 'a', 'b'))))
	}
	switch kind {
	case kGet:
		k := verifKey("key", tag("node"), seq)
		r.bytes = core.VerifEncode([]byte("get"), k)
		r.want = bulk(k)
	case kSet:
		k := verifKey("key", tag("node"), seq)
		r.bytes = core.VerifEncode([]byte("set"), k, []byte{verifrt.Byte("val")})
		r.want = []byte("+OK\r\n")
	case kMget2:
		k1, k2 := verifKey("key", tag("node"), seq), verifKey("key", tag("node"), seq)
		verifrt.Assume(k1[4] != k2[4]) // duplicate keys are C07's subject
		r.bytes = core.VerifEncode([]byte("mget"), k1, k2)
		r.want = append([]byte("*2\r\n"), append(bulk(k1), bulk(k2)...)...)
	case kPing:
		r.bytes = core.VerifEncode([]byte("ping"))
		r.want = []byte("+PONG\r\n")
	case kUnknown:
		r.bytes = core.VerifEncode([]byte("keys"), []byte("*"))
		r.want = []byte("-ERR unknown command\r\n")
	case kArity:
		r.bytes = core.VerifEncode([]byte("get"))
		r.want = []byte("-ERR wrong number of arguments\r\n")
	case kQuit:
		r.bytes = core.VerifEncode([]byte("quit"))
		r.want = []byte("+OK\r\n")
	}
	return r
}

// replyFor computes the reply a Redis node would give to the request args (echo semantics).
func replyFor(args [][]byte) []byte {
	name := string(args[0])
	switch name {
	case "get":
		return bulk(args[1])
	case "set":
		return []byte("+OK\r\n")
	case "mget":
		out := []byte("*" + string(rune('0'+len(args)-1)) + "\r\n")
		for _, k := range args[1:] {
			out = append(out, bulk(k)...)
		}
		return out
	case "del":
		return []byte(":" + string(rune('0'+len(args)-1)) + "\r\n")
	case "cluster":
		return []byte("$4\r\nnope\r\n") // an unusable node table: the refresh loop ignores it
	}
	return []byte("-ERR backend got " + name + "\r\n")
}

func isPrefix(p, s []byte) bool {
	if len(p) > len(s) {
		return false
	}
	r := true
	for i := range p {
		r = verifrt.And(r, p[i] == s[i])
	}
	return r
}

// splitReplies cuts a client-side byte log into complete RESP replies. The framing bytes of every
// reply in these harnesses are concrete (only bulk payload bytes are symbolic), so this is plain code.
func splitReplies(b []byte) (out [][]byte, rest []byte) {
	p := 0
	var one func() int
	line := func(q int) int {
		for i := q; i+1 < len(b); i++ {
			if b[i] == '\r' && b[i+1] == '\n' {
				return i + 2
			}
		}
		return -1
	}
	num := func(q, end int) int {
		n := 0
		for i := q; i < end-2; i++ {
			n = n*10 + int(b[i]-'0')
		}
		return n
	}
	one = func() int {
		if p >= len(b) {
			return -1
		}
		switch b[p] {
		case '+', '-', ':':
			return line(p)
		case '$':
			e := line(p)
			if e < 0 {
				return -1
			}
			if b[p+1] == '-' {
				return e
			}
			n := num(p+1, e)
			if e+n+2 > len(b) {
				return -1
			}
			return e + n + 2
		case '*':
			e := line(p)
			if e < 0 {
				return -1
			}
			n := num(p+1, e)
			save := p
			p = e
			for i := 0; i < n; i++ {
				q := one()
				if q < 0 {
					p = save
					return -1
				}
				p = q
			}
			end := p
			p = save
			return end
		}
		return -1
	}
	for p < len(b) {
		e := one()
		if e < 0 {
			break
		}
		out = append(out, b[p:e])
		p = e
	}
	return out, b[p:]
}

var proxyErrors = []string{
	"-ERR unknown error\r\n", "-ERR addr not found\r\n", "-ERR unknown command\r\n", "-ERR unknown slot\r\n",
	"-ERR unknown proxy pool\r\n", "-ERR unknown proxy pool conn\r\n", "-ERR unknown mget error\r\n",
	"-ERR req msg length too large\r\n", "-ERR rsp msg length too large\r\n", "-ERR wrong number of arguments\r\n",
	"-ERR proxy request timeout\r\n",
}

func isProxyError(r []byte) bool {
	for _, e := range proxyErrors {
		if len(r) == len(e) && string(r) == e {
			return true
		}
	}
	return false
}

type vBackend struct {
	conn     *core.VerifConn
	answered int
	lost     bool
	eofDue   bool   // the peer is gone but the readable event has not been delivered yet
	partial  []byte // rest of a reply whose first bytes were already delivered
}

// syncBackends keeps one vBackend per backend connection, ordered by (address, dial sequence).
func syncBackends(w *core.VerifWorld, old []*vBackend) []*vBackend {
	var out []*vBackend
	for _, sc := range w.SortedServers() {
		var b *vBackend
		for _, o := range old {
			if o.conn == sc {
				b = o
			}
		}
		if b == nil {
			b = &vBackend{conn: sc}
		}
		out = append(out, b)
	}
	return out
}

type vClient struct {
	conn    *core.VerifConn
	reqs    []*vReq
	sent    int
	hungUp  bool
	touched []bool // request i went (partly) to a backend that was lost / timed out / unowned
	mustTimeout []bool // request i was still waiting for a backend when the timeout expired
}

// HarnessWorld
//   prop   : which property's obligations are asserted (1, 3, 9, 10, 15, 16)
//   m1, m2 : number of requests of client 1 and client 2 (m2 = 0: one client)
//   steps  : number of scheduled events
//   kinds  : bit mask of allowed request kinds
//   faults : bit mask of f* constants
func HarnessWorld(prop, m1, m2, steps, kinds, faults int) {
	o := core.VerifDefaultOptions()
	if faults&fTimeout != 0 {
		o.RedisRequestTimeout = verifTimeoutMs
	}
	w, _ := verifWorld2(o)
	if faults&fUnownedB != 0 {
		core.VerifClearSlots(8192, 16383)
	}
	if faults&fDialFailB != 0 {
		w.DialFail["B:1"] = true
	}
	var allowed []int
	for k := 0; k < nKinds; k++ {
		if kinds&(1<<k) != 0 {
			allowed = append(allowed, k)
		}
	}
	var clients []*vClient
	for ci, m := range []int{m1, m2} {
		if m == 0 {
			continue
		}
		cl := &vClient{touched: make([]bool, m)}
		if !(faults&fLateClient != 0 && ci == 1) {
			cl.conn = w.NewClient([]string{"10.0.0.1:5000", "10.0.0.2:5000"}[ci])
		}
		for i := 0; i < m; i++ {
			kind := allowed[verifrt.Choice("kind", len(allowed))]
			verifrt.Assume(kind != kQuit || i == m-1) // nothing after QUIT is owed a reply
			cl.reqs = append(cl.reqs, mkReq(kind, ci*4+i))
		}
		clients = append(clients, cl)
	}
	faulty := faults&(fClientHangup|fUnownedB|fDialFailB|fBackendLoss|fTimeout|fRemoveB|fQuietLoss) != 0 // proxy-generated errors may occur
	var backs []*vBackend
	// While poller tasks are pending, the real loop handles at most the rest of the current epoll
	// batch and one more batch before it runs them: every descriptor gets at most `perFd` more events.
	perFd := 1
	if faults&fWideBatches != 0 {
		perFd = 2
	}
	touched := map[int]int{}
	timeouts := 0
	probes := 0
	backendLost := false
	removed := false
	lastEvent := -1
	for s := 0; s < steps; s++ {
		backs = syncBackends(w, backs)
		type ev struct{ kind, arg int }
		var enabled []ev
		pending := w.TasksPending()
		if pending {
			enabled = append(enabled, ev{1, 0})
		}
		may := func(fd int) bool { return !pending || touched[fd] < perFd }
		for i, cl := range clients {
			if cl.conn == nil {
				enabled = append(enabled, ev{10, i})
				continue
			}
			if cl.sent < len(cl.reqs) && cl.conn.Opened() && !cl.hungUp && may(cl.conn.Fd) {
				enabled = append(enabled, ev{0, i})
			}
			if faults&fClientHangup != 0 && !cl.hungUp && cl.conn.Opened() && cl.sent > 0 && may(cl.conn.Fd) {
				enabled = append(enabled, ev{3, i})
			}
		}
		for j, b := range backs {
			if b.lost || !b.conn.Opened() || !may(b.conn.Fd) {
				continue
			}
			_, got := core.VerifRedisParse(w.Sent(b.conn))
			if b.answered < len(got) || b.partial != nil {
				enabled = append(enabled, ev{2, j})
			}
			if faults&fBackendLoss != 0 && !backendLost {
				enabled = append(enabled, ev{4, j})
			}
			if faults&fQuietLoss != 0 && !backendLost {
				enabled = append(enabled, ev{8, j})
			}
		}
		for j, b := range backs {
			if b.eofDue && b.conn.Opened() && may(b.conn.Fd) {
				enabled = append(enabled, ev{9, j})
			}
		}
		if faults&fTimeout != 0 && timeouts < 1 && s > 0 && !pending {
			enabled = append(enabled, ev{5, 0})
		}
		if faults&fProbe != 0 && probes < 1 {
			enabled = append(enabled, ev{6, 0}, ev{6, 1})
		}
		if faults&fRemoveB != 0 && !removed {
			enabled = append(enabled, ev{7, 0}, ev{7, 1})
		}
		if len(enabled) == 0 {
			break
		}
		// when nothing but faults can still happen (a disconnect, a loss, time passing ...) the schedule may
		// also simply end here: a client left waiting must not be hidden by a fault it is then forced to suffer
		progress := false
		for _, x := range enabled {
			if x.kind == 0 || x.kind == 1 || x.kind == 2 || x.kind == 9 || x.kind == 10 {
				progress = true
			}
		}
		if !progress {
			enabled = append(enabled, ev{99, 0})
		}
		e := enabled[verifrt.Choice("event", len(enabled))]
		if e.kind == 99 {
			verifrt.Note("step " + vItoa(s) + " -> end of schedule")
			break
		}
		lastEvent = e.kind
		{
			// trace line (shown by `gosym trace`): step, pending flag, enabled events, the chosen one
			t := "step " + vItoa(s) + " pending=" + vItoa(b2i(pending)) + " enabled="
			for _, x := range enabled {
				t += vItoa(x.kind) + "." + vItoa(x.arg) + " "
			}
			verifrt.Note(t + "-> " + vItoa(e.kind) + "." + vItoa(e.arg))
		}
		evFd := -1
		switch e.kind {
		case 0:
			cl := clients[e.arg]
			evFd = cl.conn.Fd
			data := cl.reqs[cl.sent].bytes
			cl.sent++
			if faults&fBatchReads != 0 && cl.sent < len(cl.reqs) && verifrt.Choice("two_requests_in_one_read", 2) == 1 {
				data = append(append([]byte{}, data...), cl.reqs[cl.sent].bytes...)
				cl.sent++
			}
			w.Feed(cl.conn, data)
		case 1:
			w.RunTasks()
		case 2:
			b := backs[e.arg]
			evFd = b.conn.Fd
			var data []byte
			if b.partial != nil {
				data, b.partial = b.partial, nil
				b.answered++
			} else {
				_, got := core.VerifRedisParse(w.Sent(b.conn))
				g := got[b.answered]
				data = replyFor(g)
				if faults&fBackendErr != 0 && len(g) > 1 && len(g[1]) == 5 && verifrt.Choice("backend_error", 2) == 1 {
					seq := int(g[1][3] - '0')
					data = errFor(seq)
					for _, cl := range clients {
						for _, r := range cl.reqs {
							if r.seq == seq && (r.kind == kGet || r.kind == kSet || r.kind == kMget2) {
								r.errored = true
							}
						}
					}
				}
				b.answered++
				// the same read may carry further complete replies
				for faults&fMultiReplies != 0 && b.answered < len(got) && verifrt.Choice("and_the_next_reply", 2) == 1 {
					data = append(append([]byte{}, data...), replyFor(got[b.answered])...)
					b.answered++
				}
				// the same read may already carry the first bytes of the next reply
				if faults&fSplitReplies != 0 && b.answered < len(got) && verifrt.Choice("with_prefix_of_next", 2) == 1 {
					next := replyFor(got[b.answered])
					data = append(append([]byte{}, data...), next[:3]...)
					b.partial = next[3:]
				}
			}
			w.Feed(b.conn, data)
		case 3:
			cl := clients[e.arg]
			evFd = cl.conn.Fd
			cl.hungUp = true
			w.HangUp(cl.conn)
		case 4:
			b := backs[e.arg]
			evFd = b.conn.Fd
			b.lost = true
			backendLost = true
			w.HangUp(b.conn)
		case 8:
			b := backs[e.arg]
			b.lost, b.eofDue, backendLost = true, true, true
			w.CloseQuiet(b.conn)
		case 9:
			b := backs[e.arg]
			evFd = b.conn.Fd
			b.eofDue = false
			w.Readable(b.conn)
		case 5:
			timeouts++
			// every request that is waiting for a backend now has been written to it (no task is
			// pending), so its deadline is running: it is owed the timeout error
			for _, cl := range clients {
				if cl.conn == nil || cl.hungUp || !cl.conn.Opened() {
					continue
				}
				replies, _ := splitReplies(w.Sent(cl.conn))
				cl.mustTimeout = make([]bool, len(cl.reqs))
				for i, done := range cl.conn.QueueDone() {
					if !done && len(replies)+i < len(cl.reqs) {
						cl.mustTimeout[len(replies)+i] = true
					}
				}
			}
			verifrt.Sleep(verifTimeoutMs + 20)
		case 6:
			probes++
			w.Probe([]string{"A:1", "B:1"}[e.arg])
		case 10:
			clients[e.arg].conn = w.NewClient("10.0.0.2:5000")
		case 7:
			// a changed CLUSTER NODES reply was adopted: node B is gone; its slots are unowned (arg 0)
			// or have been taken over by A (arg 1). The ticker closes B's pool and rebuilds the table.
			removed = true
			if e.arg == 0 {
				w.Retopo([]string{"A:1"}, [][2]int{{0, 8191}})
			} else {
				w.Retopo([]string{"A:1"}, [][2]int{{0, 16383}})
			}
			w.Tick()
		}
		if !w.TasksPending() || !pending {
			// tasks were drained, or this very event queued the first task: a new counting period
			touched = map[int]int{}
		} else if evFd >= 0 {
			touched[evFd]++
		}
		if faults&fTimeout != 0 {
			w.Timeout() // the sweep runs at the end of every poller iteration
		}
		verifrt.Assert(!w.Shutdown, "proxy_keeps_running")
		if prop == 16 && e.kind == 5 {
			// C16: the sweep that follows the expiry answers every waiting request, with the timeout error
			for _, cl := range clients {
				if cl.conn == nil || cl.hungUp || !cl.conn.Opened() {
					continue
				}
				replies, rest := splitReplies(w.Sent(cl.conn))
				verifrt.Assert(len(replies) == cl.sent && len(rest) == 0 && cl.conn.InMsgCount() == 0, "C16_every_waiting_request_is_answered_when_its_timeout_expires")
				for j, r := range replies {
					if cl.mustTimeout[j] {
						verifrt.Assert(string(r) == "-ERR proxy request timeout\r\n", "C16_waiting_request_gets_the_timeout_error")
					}
				}
			}
		}

		for _, cl := range clients {
			if cl.conn == nil || cl.hungUp {
				continue
			}
			log := w.Sent(cl.conn)
			replies, _ := splitReplies(log)
			switch prop {
			case 1:
				// C01: the replies received so far are, position by position, the replies owed
				verifrt.Assert(len(replies) <= cl.sent, "C01_no_more_replies_than_requests")
				for j, r := range replies {
					want := cl.reqs[j].want
					if cl.reqs[j].errored {
						want = errFor(cl.reqs[j].seq)
					}
					verifrt.Assert(len(r) == len(want) && isPrefix(r, want), "C01_replies_in_request_order")
				}
			case 3, 15, 16:
				// C03: every delivered reply is this client's own reply for that position, or a proxy error
				verifrt.Assert(len(replies) <= cl.sent, "C03_no_more_replies_than_requests")
				for j, r := range replies {
					want := cl.reqs[j].want
					if cl.reqs[j].errored {
						want = errFor(cl.reqs[j].seq)
					}
					own := len(r) == len(want) && isPrefix(r, want)
					verifrt.Assert(verifrt.Or(own, faulty && isProxyError(r)), "C03_reply_belongs_to_this_request")
				}
			case 9:
				if e.kind == 2 {
					// C09: after a backend reply has been processed nothing completed is left at the head
					verifrt.Assert(cl.conn.DoneHeadCount() == 0 || !cl.conn.Opened(), "C09_completed_head_is_flushed")
				}
			}
		}
		if prop == 10 {
			// C10: each backend connection saw each client's requests in that client's order
			for _, b := range backs {
				_, got := core.VerifRedisParse(w.Sent(b.conn))
				for _, cl := range clients {
					last := -1
					for _, g := range got {
						idx := -1
						for i := 0; i < cl.sent && idx < 0; i++ {
							if containsArgs(cl.reqs[i], g) {
								idx = i
							}
						}
						if idx >= 0 {
							verifrt.Assert(idx >= last, "C10_backend_sees_client_order")
							last = idx
						}
					}
				}
			}
		}
	}
	// quiescence: everything sent, every live backend has answered, no tasks pending
	quiet := !w.TasksPending()
	for _, cl := range clients {
		if cl.conn == nil {
			quiet = false // it has not even connected yet
			continue
		}
		if cl.sent < len(cl.reqs) && !cl.hungUp && cl.conn.Opened() {
			quiet = false
		}
	}
	for _, b := range backs {
		_, got := core.VerifRedisParse(w.Sent(b.conn))
		if (b.answered < len(got) || b.partial != nil) && !b.lost && b.conn.Opened() {
			quiet = false
		}
		if b.eofDue && b.conn.Opened() {
			quiet = false // epoll will still report the hang-up
		}
	}
	verifrt.ObserveBool("quiet", quiet)
	for _, cl := range clients {
		if cl.conn == nil {
			continue
		}
		verifrt.ObserveBytes("client", w.Sent(cl.conn))
		verifrt.ObserveBool("open", cl.conn.Opened())
	}
	_ = lastEvent
	if quiet {
		for _, cl := range clients {
			if cl.conn == nil || cl.hungUp {
				continue
			}
			replies, rest := splitReplies(w.Sent(cl.conn))
			quit := cl.reqs[len(cl.reqs)-1].kind == kQuit
			switch prop {
			case 1:
				verifrt.Assert(len(rest) == 0 && len(replies) == len(cl.reqs), "C01_exactly_one_reply_per_request")
				verifrt.Assert(cl.conn.Opened() == !quit, "connection_open_unless_quit")
				verifrt.Assert(!cl.conn.Opened() || cl.conn.InMsgCount() == 0, "no_request_left_queued")
			case 15, 16:
				// C15/C16: nobody waits forever: each request has been answered or the client was closed
				answeredAll := len(replies) == len(cl.reqs) && len(rest) == 0
				if timeouts == 0 || prop == 15 {
					verifrt.Assert(answeredAll || !cl.conn.Opened(), "C15_every_request_answered_or_client_closed")
				}
				if prop == 16 && timeouts > 0 {
					verifrt.Assert(cl.conn.Opened() || quit, "C16_connection_stays_usable")
					verifrt.Assert(answeredAll, "C16_every_request_answered")
					nTimeout := 0
					for _, r := range replies {
						if string(r) == "-ERR proxy request timeout\r\n" {
							nTimeout++
						}
					}
					verifrt.Assert(nTimeout <= len(cl.reqs), "C16_at_most_one_timeout_error_per_request")
					// a backend reply that arrived after the expiry was discarded: the timed-out
					// positions still hold the timeout error, everything else its own reply
					for j, r := range replies {
						if cl.mustTimeout != nil && cl.mustTimeout[j] {
							verifrt.Assert(string(r) == "-ERR proxy request timeout\r\n", "C16_late_reply_discarded")
						} else {
							want := cl.reqs[j].want
							verifrt.Assert(len(r) == len(want) && isPrefix(r, want), "C16_other_requests_get_their_own_reply")
						}
					}
				}
			}
		}
		verifrt.Cover("quiescent", true)
	}
	verifrt.Cover("end", true)
}

// containsArgs: does the backend request g carry (a fragment of) client request r? Keys carry the
// request's sequence number in their 4th byte, so this is a concrete comparison.
func containsArgs(r *vReq, g [][]byte) bool {
	if r.kind != kGet && r.kind != kSet && r.kind != kMget2 {
		return false
	}
	_, parsed := core.VerifRedisParse(r.bytes)
	if len(parsed) != 1 {
		return false
	}
	args := parsed[0]
	if string(g[0]) != string(args[0]) || len(g) < 2 || len(g[1]) != 5 || len(args[1]) != 5 {
		return false
	}
	return g[1][3] == args[1][3]
}

// HarnessPipe is the one-client, fault-free instance used by C01 / C09 / C10.
func HarnessPipe(prop, m, steps, kinds int) { HarnessWorld(prop, m, 0, steps, kinds, 0) }

func init() {
	verifrt.Register("HarnessPipe", func(p []int64) { HarnessPipe(int(p[0]), int(p[1]), int(p[2]), int(p[3])) })
	verifrt.Register("HarnessWorld", func(p []int64) {
		HarnessWorld(int(p[0]), int(p[1]), int(p[2]), int(p[3]), int(p[4]), int(p[5]))
	})
}
