//go:build verif

package server

import (
	"rcproxy/core"
	"rcproxy/verifrt"
)

// vReply builds a well-formed RESP2 reply of a given shape with arbitrary content bytes.
func vReply(shape int) []byte {
	nocrlf := func(b []byte) {
		for _, x := range b {
			verifrt.Assume(verifrt.And(x != '\r', x != '\n'))
		}
	}
	switch shape {
	case 0: // status (not OK/PONG necessarily: arbitrary text)
		t := verifrt.Bytes("status", 3)
		nocrlf(t)
		return append(append([]byte{'+'}, t...), '\r', '\n')
	case 1: // error that is not one the proxy acts on
		return errReply("err")
	case 2: // integer
		d := verifrt.Bytes("digits", 2)
		for _, x := range d {
			verifrt.Assume(verifrt.And(x >= '0', x <= '9'))
		}
		verifrt.Assume(d[0] != '0')
		return append(append([]byte{':'}, d...), '\r', '\n')
	case 3: // bulk of 3 arbitrary bytes (CR/LF allowed)
		return bulk(verifrt.Bytes("bulk", 3))
	case 4:
		return []byte("$-1\r\n")
	case 5:
		return []byte("$0\r\n\r\n")
	case 6:
		return []byte("*0\r\n")
	case 7: // array [bulk, integer, null]
		out := []byte("*3\r\n")
		out = append(out, bulk(verifrt.Bytes("el", 1))...)
		out = append(out, ":7\r\n$-1\r\n"...)
		return out
	case 8: // nested [[bulk], status]
		out := []byte("*2\r\n*1\r\n")
		out = append(out, bulk(verifrt.Bytes("el", 2))...)
		return append(out, "+x\r\n"...)
	case 9: // empty status line
		return []byte("+\r\n")
	}
	return nil
}

// HarnessC02Rsp: GET k answered by the owning node with a reply of the given shape; the reply is cut
// into two reads at an arbitrary position; hs = number of handshake replies (+OK) that precede it on
// a freshly opened backend connection (0 none, 1 password, 2 password+replica);
// slow > 0: the client socket accepts only `slow` bytes at first (the rest is drained on writable events).
func HarnessC02Rsp(shape, hs, slow int) {
	o := core.VerifDefaultOptions()
	var sopts []Option
	if hs >= 1 {
		sopts = append(sopts, WithRedisPassword("p"))
		o.RedisPasswd = "p"
	}
	w, _, sets := verifWorld3(o, 1, sopts...)
	_ = sets
	c := w.NewClient("10.0.0.1:5000")
	key := []byte{'{', 'b', '}', verifrt.Byte("key")} // slot 3300 -> replica set B (200..8191)
	w.Feed(c, core.VerifEncode([]byte("get"), key))
	w.RunTasks()
	verifrt.Assert(len(w.Servers) == 1, "one_backend")
	s := w.Servers[0]
	isSlave := s.Addr != "B:1"
	steps := 0
	if hs >= 1 {
		steps++
	}
	if isSlave {
		steps++
	}
	if hs == 2 {
		verifrt.Assume(isSlave)
	}
	reply := vReply(shape)
	var stream []byte
	for i := 0; i < steps; i++ {
		stream = append(stream, "+OK\r\n"...)
	}
	stream = append(stream, reply...)
	cut := verifrt.Concretize(verifrt.Int("cut", 0, len(stream)))
	if slow > 0 {
		verifrt.LimitWrites(c.Fd, slow)
	}
	if cut > 0 && cut < len(stream) {
		w.Feed(s, stream[:cut])
		// nothing may be delivered for a proper prefix of the reply
		verifrt.Assert(len(w.Sent(c)) == 0, "nothing_delivered_for_a_reply_prefix")
		w.Feed(s, stream[cut:])
	} else {
		w.Feed(s, stream)
	}
	if slow > 0 {
		got := w.Sent(c)
		verifrt.Assert(len(got) <= slow, "model_respects_write_limit")
		// the reader catches up: a few more bytes at a time
		for i := 0; i < 6 && c.OutboundBuffered() > 0; i++ {
			verifrt.LimitWrites(c.Fd, 2)
			w.Writable(c)
		}
		verifrt.LimitWrites(c.Fd, -1)
		w.Writable(c)
	}
	out := w.Sent(c)
	verifrt.ObserveBytes("client", out)
	verifrt.Assert(len(out) == len(reply) && isPrefix(out, reply), "reply_delivered_byte_exact_once")
	verifrt.Assert(c.OutboundBuffered() == 0, "nothing_left_in_outbound_buffer")
	verifrt.Assert(c.Opened() && !w.Shutdown, "client_and_proxy_stay_up")
	verifrt.Cover("end", true)
}

// HarnessC02Slow: two GET replies to a client that reads slowly. The static part of the outbound
// buffer holds `wcap` bytes, so the backlog spills into the overflow list; the socket accepts a
// solver-chosen number of bytes at each step. Whatever the pattern of partial writes, the client's
// byte stream is reply1 followed by reply2, complete and in order.
func HarnessC02Slow(wcap int) {
	o := core.VerifDefaultOptions()
	o.WriteBufferCap = wcap
	w, _ := verifWorld2(o)
	c := w.NewClient("10.0.0.1:5000")
	k1 := []byte{'{', 'b', '}', verifrt.Byte("key")}
	k2 := []byte{'{', 'b', '}', verifrt.Byte("key")}
	w.Feed(c, append(core.VerifEncode([]byte("get"), k1), core.VerifEncode([]byte("get"), k2)...))
	w.RunTasks()
	verifrt.Assert(len(w.Servers) == 1, "one_backend")
	s := w.Servers[0]
	r1 := bulk(verifrt.Bytes("v1", 9))
	r2 := bulk(verifrt.Bytes("v2", 3))
	// the socket takes a0 bytes of the first reply, the rest is buffered (static part, then list)
	a0 := verifrt.Concretize(verifrt.Int("accept0", 0, 3))
	verifrt.LimitWrites(c.Fd, a0)
	w.Feed(s, r1)
	// the reader catches up a little: a1 bytes are drained on a writable event
	a1 := verifrt.Concretize(verifrt.Int("accept1", 0, 6))
	verifrt.LimitWrites(c.Fd, a1)
	w.Writable(c)
	// the second reply arrives while part of the first is still queued
	verifrt.LimitWrites(c.Fd, verifrt.Concretize(verifrt.Int("accept2", 0, 2)))
	w.Feed(s, r2)
	for i := 0; i < 12 && c.OutboundBuffered() > 0; i++ {
		verifrt.LimitWrites(c.Fd, 3)
		w.Writable(c)
	}
	verifrt.LimitWrites(c.Fd, -1)
	w.Writable(c)
	out := w.Sent(c)
	want := append(append([]byte{}, r1...), r2...)
	verifrt.ObserveBytes("client", out)
	verifrt.Assert(len(out) == len(want) && isPrefix(out, want), "slow_reader_gets_both_replies_complete_in_order")
	verifrt.Assert(c.OutboundBuffered() == 0 && c.Opened(), "backlog_drained_connection_open")
	verifrt.Cover("end", true)
}

// HarnessC10Slow: the node reads slowly. m requests of one client for node A are written while the
// backend socket accepts only a solver-chosen number of bytes per write (nothing / a few bytes /
// everything), with writable events in between that drain a solver-chosen part of the backlog, and with
// the poller's task run (the write signal) falling before or after the next events of its batch. The
// static part of the connection's outbound buffer holds `wcap` bytes, so the backlog spills into the
// overflow list. Whatever the pattern: the node receives the requests byte-exact, complete, in the order
// the client sent them.                                                             [C10, C02, C19]
func HarnessC10Slow(wcap, m int) {
	o := core.VerifDefaultOptions()
	o.WriteBufferCap = wcap
	w, _ := verifWorld2(o)
	c := w.NewClient("10.0.0.1:5000")
	verifrt.Assert(core.EngineGlobal.ProxyPool["A:1"].Get() != nil && len(w.Servers) == 1, "harness_backend_connection")
	s := w.Servers[0]
	var want []byte
	accept := []int{0, 3, -1}
	drain := []int{-2, 5, 20, -1}
	forced := false
	for i := 0; i < m; i++ {
		var req []byte
		k := []byte{'{', 'b', '}', byte('0' + i), verifrt.Byte("key")}
		if i%2 == 1 {
			req = core.VerifEncode([]byte("set"), k, []byte{verifrt.Byte("val")})
		} else {
			req = core.VerifEncode([]byte("get"), k)
		}
		want = append(want, req...)
		verifrt.LimitWrites(s.Fd, accept[verifrt.Choice("socket_accepts", len(accept))])
		w.Feed(c, req)
		// the poller runs its queued tasks (the write signal) at the end of the epoll batch in which it is
		// woken up: a writable event of the backend and the client's next read may be handled before that
		deferred := !forced && w.TasksPending() && verifrt.Choice("tasks_run_after_the_next_events", 2) == 1
		if !deferred {
			w.RunTasks()
		}
		forced = deferred
		if d := drain[verifrt.Choice("writable_event_drains", len(drain))]; d != -2 {
			verifrt.LimitWrites(s.Fd, d)
			w.Writable(s)
		}
	}
	w.RunTasks()
	for i := 0; i < 40 && s.OutboundBuffered() > 0; i++ {
		verifrt.LimitWrites(s.Fd, 7)
		w.Writable(s)
	}
	verifrt.LimitWrites(s.Fd, -1)
	w.Writable(s)
	got := w.Sent(s)
	verifrt.ObserveBytes("node", got)
	verifrt.Assert(len(got) == len(want) && isPrefix(got, want), "slow_node_receives_the_requests_byte_exact_in_client_order")
	verifrt.Assert(s.OutboundBuffered() == 0 && s.Opened() && c.Opened(), "backlog_drained_connections_open")
	verifrt.Cover("end", true)
}

// HarnessC09Slow: a pipelining client that reads slowly. m GETs are pipelined; the node answers them one
// by one while the client's socket accepts a solver-chosen amount per write (nothing / 3 bytes /
// everything) and writable events in between drain a solver-chosen part of the backlog (static outbound
// buffer of `wcap` bytes, so the backlog spills into the overflow list). Then the client catches up:
// the proxy gets writable events for as long as it has asked the poller for them. Every completed reply
// must then have been delivered - byte-exact, in order - and nothing may be left queued.   [C09, C01, C02, C19]
func HarnessC09Slow(wcap, m int) {
	o := core.VerifDefaultOptions()
	o.WriteBufferCap = wcap
	w, _ := verifWorld2(o)
	c := w.NewClient("10.0.0.1:5000")
	var in []byte
	var replies [][]byte
	for i := 0; i < m; i++ {
		k := []byte{'{', 'b', '}', byte('0' + i), 'x'}
		in = append(in, core.VerifEncode([]byte("get"), k)...)
		replies = append(replies, bulk([]byte{'v', byte('0' + i), verifrt.Byte("val"), 'a', 'b', 'c', 'd', 'e', byte('0' + i)}))
	}
	w.Feed(c, in)
	w.RunTasks()
	verifrt.Assert(len(w.Servers) == 1, "one_backend")
	s := w.Servers[0]
	var want []byte
	accept := []int{0, 3, -1}
	drain := []int{-2, 5, -1}
	for i := 0; i < m; i++ {
		verifrt.LimitWrites(c.Fd, accept[verifrt.Choice("socket_accepts", len(accept))])
		w.Feed(s, replies[i])
		want = append(want, replies[i]...)
		if d := drain[verifrt.Choice("writable_event_drains", len(drain))]; d != -2 {
			verifrt.LimitWrites(c.Fd, d)
			w.Writable(c)
		}
	}
	for i := 0; i < 80 && (c.OutboundBuffered() > 0 || c.DoneHeadCount() > 0) && verifrt.WantsWrite(c.Fd); i++ {
		verifrt.LimitWrites(c.Fd, 7)
		w.Writable(c)
	}
	verifrt.LimitWrites(c.Fd, -1)
	w.Writable(c)
	out := w.Sent(c)
	verifrt.ObserveBytes("client", out)
	verifrt.Assert(c.DoneHeadCount() == 0 && c.InMsgCount() == 0, "C09_no_completed_reply_left_queued_once_the_client_has_caught_up")
	verifrt.Assert(len(out) == len(want) && isPrefix(out, want), "slow_reader_gets_every_reply_complete_in_order")
	verifrt.Assert(c.OutboundBuffered() == 0 && c.Opened(), "backlog_drained_connection_open")
	verifrt.Cover("end", true)
}

// bigBulk: a bulk reply of n payload bytes: a concrete repeating pattern that differs per reply
// (so that bytes of one reply showing up in another are visible) with arbitrary bytes at the first,
// middle and last position.
func bigBulk(n int, fill byte, label string) []byte {
	p := make([]byte, n)
	for i := range p {
		p[i] = fill + byte(i%23)
	}
	if n > 0 {
		p[0] = verifrt.Byte(label)
		p[n/2] = verifrt.Byte(label)
		p[n-1] = verifrt.Byte(label)
	}
	return bulk(p)
}

// HarnessBig: replies of n payload bytes (kilobytes: larger than the read buffer, the static part of
// the outbound buffer and any internal size threshold of that order).
//   mode 0: pipeline GET ka (node B), GET kb (node A); A answers first with the big reply, then B
//           answers (n2 bytes): the client receives reply(ka) then reply(kb), byte-exact  [C01, C02, C03]
//   mode 1: one GET answered with the big reply while the client reads slowly: the socket accepts a
//           solver-chosen amount at first and the backlog is drained in 4 KiB steps            [C02, C19]
//   mode 2: a slow client's big reply (n bytes) is backlogged; another client is then served twice (replies of
//           n2 bytes, request objects recycled); the slow client drains: each gets its own bytes  [C03, C02]
//   rcap: size of the event loop's read buffer (production: 64 KiB)
func HarnessBig(mode, n, n2, rcap int) {
	o := core.VerifDefaultOptions()
	o.ReadBufferCap = rcap
	w, _ := verifWorld2(o)
	c := w.NewClient("10.0.0.1:5000")
	ka := []byte{'{', 'a', '}', verifrt.Byte("key")} // node B
	kb := []byte{'{', 'b', '}', verifrt.Byte("key")} // node A
	if mode == 0 {
		w.Feed(c, append(core.VerifEncode([]byte("get"), ka), core.VerifEncode([]byte("get"), kb)...))
		w.RunTasks()
		verifrt.Assert(len(w.ByAddr["A:1"]) == 1 && len(w.ByAddr["B:1"]) == 1, "both_nodes_contacted")
		A, B := w.ByAddr["A:1"][0], w.ByAddr["B:1"][0]
		rb := bigBulk(n, 'A', "vb")
		ra := bigBulk(n2, 'a', "va")
		w.FeedAll(A, rb)
		verifrt.Assert(len(w.Sent(c)) == 0, "later_reply_waits_for_the_earlier_request")
		w.FeedAll(B, ra)
		out := w.Sent(c)
		want := append(append([]byte{}, ra...), rb...)
		verifrt.ObserveInt("client_bytes", len(out))
		verifrt.Assert(len(out) == len(want), "both_replies_complete_in_request_order")
		verifrt.Assert(verifBytesEq(out, want), "both_replies_byte_exact_in_request_order")
		verifrt.Assert(c.Opened() && !w.Shutdown && c.InMsgCount() == 0, "connection_open_queue_empty")
		verifrt.Cover("end", true)
		return
	}
	if mode == 2 {
		// a slow client's big reply is backlogged in its outbound buffer; meanwhile another client is
		// served (its request reuses the recycled request object); then the slow client drains
		w.Feed(c, core.VerifEncode([]byte("get"), kb))
		w.RunTasks()
		A := w.ByAddr["A:1"][0]
		ra := bigBulk(n, 'A', "va")
		verifrt.LimitWrites(c.Fd, []int{0, 1, 300}[verifrt.Choice("socket_accepts_at_first", 3)])
		w.FeedAll(A, ra)
		verifrt.Assert(c.OutboundBuffered() > 0, "harness_backlog_exists")
		c2 := w.NewClient("10.0.0.2:5000")
		for round := 0; round < 2; round++ {
			before := len(w.Sent(c2))
			w.Feed(c2, core.VerifEncode([]byte("get"), kb))
			w.RunTasks()
			rb := bigBulk(n2, 'k'+byte(round), "vb")
			w.FeedAll(A, rb)
			verifrt.Assert(verifBytesEq(w.Sent(c2)[before:], rb), "other_client_gets_its_own_reply")
		}
		for i := 0; i < 2*(n/4096+2) && c.OutboundBuffered() > 0; i++ {
			verifrt.LimitWrites(c.Fd, 4096)
			w.Writable(c)
		}
		verifrt.LimitWrites(c.Fd, -1)
		w.Writable(c)
		out := w.Sent(c)
		verifrt.ObserveInt("client_bytes", len(out))
		verifrt.Assert(len(out) == len(ra), "slow_reader_gets_the_whole_reply")
		verifrt.Assert(verifBytesEq(out, ra), "slow_reader_gets_its_own_reply_byte_exact")
		verifrt.Assert(c.OutboundBuffered() == 0 && c.Opened() && c2.Opened(), "backlog_drained_connections_open")
		verifrt.Cover("end", true)
		return
	}
	w.Feed(c, core.VerifEncode([]byte("get"), kb))
	w.RunTasks()
	A := w.ByAddr["A:1"][0]
	rb := bigBulk(n, 'A', "vb")
	first := []int{0, 1, 255, 256, 257, n / 2, n + 2}[verifrt.Choice("socket_accepts_at_first", 7)]
	verifrt.LimitWrites(c.Fd, first)
	w.FeedAll(A, rb)
	for i := 0; i < 2*(n/4096+2) && c.OutboundBuffered() > 0; i++ {
		verifrt.LimitWrites(c.Fd, 4096)
		w.Writable(c)
	}
	verifrt.LimitWrites(c.Fd, -1)
	w.Writable(c)
	out := w.Sent(c)
	verifrt.ObserveInt("client_bytes", len(out))
	verifrt.Assert(len(out) == len(rb), "slow_reader_gets_the_whole_reply")
	verifrt.Assert(verifBytesEq(out, rb), "slow_reader_gets_the_reply_byte_exact")
	verifrt.Assert(c.OutboundBuffered() == 0 && c.Opened(), "backlog_drained_connection_open")
	verifrt.Cover("end", true)
}

func init() {
	verifrt.Register("HarnessBig", func(p []int64) { HarnessBig(int(p[0]), int(p[1]), int(p[2]), int(p[3])) })
	verifrt.Register("HarnessC09Slow", func(p []int64) { HarnessC09Slow(int(p[0]), int(p[1])) })
	verifrt.Register("HarnessC10Slow", func(p []int64) { HarnessC10Slow(int(p[0]), int(p[1])) })
	verifrt.Register("HarnessC02Slow", func(p []int64) { HarnessC02Slow(int(p[0])) })
	verifrt.Register("HarnessC02Rsp", func(p []int64) { HarnessC02Rsp(int(p[0]), int(p[1]), int(p[2])) })
}
