//go:build verif

package server

import (
	"rcproxy/core"
	"rcproxy/verifrt"
)

// HarnessC13: a request for a key on node B is answered by B with a redirect; the solver chooses
// the redirect kind (MOVED / ASK), whether the named node is known, the position of the redirected
// request in a two-request pipeline, whether it is a single-key request or a fragment of a split
// MGET, and when the other replies arrive.
//   split: 0 single GET, 1 MGET over both nodes (the fragment for B is redirected)
//   conns: connections per backend node (redis.server_connections); with more than one the pool hands
//          out a different connection on every Get, and ASKING only counts on the connection it was sent on
func HarnessC13(split, conns int) {
	o := core.VerifDefaultOptions()
	o.RedisServerConnections = conns
	w, _ := verifWorld2(o)
	w.AddPool("C:1", false) // a known node that owns nothing yet (the redirect target)
	c := w.NewClient("10.0.0.1:5000")
	kb := []byte{'{', 'a', '}', verifrt.Byte("key")} // slot 15495 -> B
	ka := []byte{'{', 'b', '}', verifrt.Byte("key")} // slot 3300  -> A
	var redirected, other *vReq
	if split == 1 {
		redirected = &vReq{bytes: core.VerifEncode([]byte("mget"), ka, kb), want: append([]byte("*2\r\n"), append(bulk(ka), bulk(kb)...)...)}
	} else {
		redirected = &vReq{bytes: core.VerifEncode([]byte("get"), kb), want: bulk(kb)}
	}
	other = &vReq{bytes: core.VerifEncode([]byte("get"), ka), want: bulk(ka)}
	first := verifrt.Bool("redirected_first")
	reqs := []*vReq{other, redirected}
	if first {
		reqs = []*vReq{redirected, other}
	}
	ask := verifrt.Bool("ask")
	known := verifrt.Bool("target_known")
	target := "C:1"
	if !known {
		target = "D:9"
	}
	w.Feed(c, append(append([]byte{}, reqs[0].bytes...), reqs[1].bytes...))
	w.RunTasks()
	verifrt.Assert(len(w.ByAddr["B:1"]) == 1 && len(w.ByAddr["A:1"]) >= 1, "both_nodes_contacted")
	B := w.ByAddr["B:1"][0]

	redirect := "-MOVED 15495 " + target + "\r\n"
	if ask {
		redirect = "-ASK 15495 " + target + "\r\n"
	}
	// B answers its only request with the redirect; A's replies may come before or after
	aFirst := verifrt.Bool("a_answers_first")
	answerA := func() {
		for _, A := range w.ByAddr["A:1"] {
			_, got := core.VerifRedisParse(w.Sent(A))
			for _, g := range got {
				w.Feed(A, replyFor(g))
			}
		}
	}
	if aFirst {
		answerA()
	}
	w.Feed(B, []byte(redirect))
	w.RunTasks()
	if !aFirst {
		answerA()
	}
	log := w.Sent(c)
	if !known {
		// the node named by the redirect is unknown: the request is answered with an error in its
		// place (nobody waits forever, C15) and the other request is unaffected
		replies, rest := splitReplies(log)
		verifrt.Assert(len(replies) == 2 && len(rest) == 0, "unknown_target_both_requests_answered")
		for j, r := range replies {
			own := len(r) == len(reqs[j].want) && isPrefix(r, reqs[j].want)
			if reqs[j] == redirected {
				verifrt.Assert(isProxyError(r), "unknown_target_answered_with_proxy_error")
			} else {
				verifrt.Assert(own, "other_request_unaffected")
			}
		}
		verifrt.Assert(c.Opened() && !w.Shutdown, "client_and_proxy_stay_up")
		verifrt.Cover("end", true)
		return
	}
	verifrt.Assert(len(w.ByAddr["C:1"]) >= 1, "request_resent_to_named_node")
	// exactly one connection to the named node carries the re-sent request - together with its ASKING
	var C *core.VerifConn
	for _, cc := range w.ByAddr["C:1"] {
		if len(w.Sent(cc)) > 0 {
			verifrt.Assert(C == nil, "asking_and_request_travel_on_one_connection")
			C = cc
		}
	}
	verifrt.Assert(C != nil, "request_resent_to_named_node")
	gotC := w.Sent(C)
	verifrt.ObserveBytes("to_target", gotC)
	// what the target must receive: [ASKING] + the redirected request/fragment, exactly once
	var wantC []byte
	if ask {
		wantC = append(wantC, "*1\r\n$6\r\nASKING\r\n"...)
	}
	if split == 1 {
		wantC = append(wantC, core.VerifEncode([]byte("mget"), kb)...)
	} else {
		wantC = append(wantC, core.VerifEncode([]byte("get"), kb)...)
	}
	verifrt.Assert(len(gotC) == len(wantC) && isPrefix(gotC, wantC), "target_receives_asking_then_request_once")
	// before the final node answers the client has at most the replies preceding the redirected request
	replies, rest := splitReplies(log)
	maxBefore := 0
	if !first {
		maxBefore = 1
	}
	verifrt.Assert(len(replies) <= maxBefore && len(rest) == 0, "redirect_not_visible_to_client")
	for j, r := range replies {
		verifrt.Assert(len(r) == len(reqs[j].want) && isPrefix(r, reqs[j].want), "replies_in_order")
	}
	// the final node answers
	if ask {
		w.Feed(C, []byte("+OK\r\n"))
	}
	if split == 1 {
		w.Feed(C, append([]byte("*1\r\n"), bulk(kb)...))
	} else {
		w.Feed(C, bulk(kb))
	}
	final, rest2 := splitReplies(w.Sent(c))
	verifrt.ObserveBytes("client", w.Sent(c))
	verifrt.Assert(len(final) == 2 && len(rest2) == 0, "client_receives_exactly_the_two_replies")
	for j, r := range final {
		verifrt.Assert(len(r) == len(reqs[j].want) && isPrefix(r, reqs[j].want), "final_replies_in_pipeline_order")
	}
	verifrt.Assert(c.Opened() && !w.Shutdown, "client_and_proxy_stay_up")
	verifrt.Cover("end", true)
}

// HarnessC13Seq: n requests one after the other on one client connection, EACH redirected `hops` times
// (B -> C, then C -> A when hops is 2) with a solver-chosen kind per redirect. The request objects are
// recycled from one request to the next, so whatever a request leaves behind (counters, flags, buffers)
// meets the next one: every one of the n must be followed transparently - the named node receives
// [ASKING +] the request, the client sees nothing but the final node's reply, exactly once, in order.
func HarnessC13Seq(n, hops int) {
	o := core.VerifDefaultOptions()
	w, _ := verifWorld2(o)
	w.AddPool("C:1", false)
	c := w.NewClient("10.0.0.1:5000")
	seen := map[string]int{}
	var wantClient []byte
	for i := 0; i < n; i++ {
		k := []byte{'{', 'a', '}', byte('0' + i), 'x'} // slot 15495 -> B
		if i == n-1 {
			k[4] = verifrt.Byte("key")
		}
		req := core.VerifEncode([]byte("get"), k)
		w.Feed(c, req)
		w.RunTasks()
		cur := "B:1"
		verifrt.Assert(len(w.ByAddr[cur]) == 1, "request_sent_to_owner")
		verifrt.Assert(verifBytesEq(w.Sent(w.ByAddr[cur][0])[seen[cur]:], req), "owner_receives_the_request")
		seen[cur] = len(w.Sent(w.ByAddr[cur][0]))
		asked := false
		for h := 0; h < hops; h++ {
			next := []string{"C:1", "A:1"}[h]
			ask := verifrt.Choice("ask", 2) == 1
			kind := "-MOVED"
			if ask {
				kind = "-ASK"
			}
			var rsp []byte
			if asked {
				rsp = append(rsp, "+OK\r\n"...) // the reply to the ASKING that preceded the request on this node
			}
			rsp = append(rsp, (kind + " 15495 " + next + "\r\n")...)
			w.Feed(w.ByAddr[cur][0], rsp)
			w.RunTasks()
			verifrt.Assert(len(w.ByAddr[next]) == 1, "request_resent_to_named_node")
			want := []byte{}
			if ask {
				want = append(want, "*1\r\n$6\r\nASKING\r\n"...)
			}
			want = append(want, req...)
			verifrt.Assert(verifBytesEq(w.Sent(w.ByAddr[next][0])[seen[next]:], want), "target_receives_asking_then_request_once")
			seen[next] = len(w.Sent(w.ByAddr[next][0]))
			verifrt.Assert(verifBytesEq(w.Sent(c), wantClient), "redirect_not_visible_to_client")
			cur, asked = next, ask
		}
		var rsp []byte
		if asked {
			rsp = append(rsp, "+OK\r\n"...)
		}
		rsp = append(rsp, bulk(k)...)
		w.Feed(w.ByAddr[cur][0], rsp)
		wantClient = append(wantClient, bulk(k)...)
		verifrt.Assert(verifBytesEq(w.Sent(c), wantClient), "client_receives_exactly_the_final_reply")
		verifrt.Assert(c.Opened() && !w.Shutdown, "client_and_proxy_stay_up")
	}
	verifrt.ObserveBytes("client", w.Sent(c))
	verifrt.Cover("end", true)
}

// HarnessC16Seq: n requests one after the other on one connection (request objects recycled from one to
// the next); each is, by the solver's choice, answered in time, or times out with the node's reply
// arriving late - right away or only together with the next reply. Every timed-out request gets exactly
// the timeout error, every other one its own reply, late replies vanish, the connection stays usable -
// also for the second, third ... timeout of the run.
func HarnessC16Seq(n int) {
	o := core.VerifDefaultOptions()
	o.RedisRequestTimeout = verifTimeoutMs
	w, _ := verifWorld2(o)
	c := w.NewClient("10.0.0.1:5000")
	var want, owed []byte
	for i := 0; i < n; i++ {
		k := []byte{'{', 'b', '}', byte('0' + i), 'x'}
		if i == n-1 {
			k[4] = verifrt.Byte("key")
		}
		w.Feed(c, core.VerifEncode([]byte("get"), k))
		w.RunTasks()
		w.Timeout()
		verifrt.Assert(len(w.ByAddr["A:1"]) == 1, "one_backend_connection")
		s := w.ByAddr["A:1"][0]
		own := bulk(k)
		switch verifrt.Choice("outcome", 3) {
		case 0: // in time (after whatever the node still owed for timed-out requests)
			w.Feed(s, append(append([]byte{}, owed...), own...))
			owed = nil
			want = append(want, own...)
		case 1: // times out; the node's reply comes later, together with the next one
			verifrt.Sleep(verifTimeoutMs + 20)
			w.Timeout()
			want = append(want, "-ERR proxy request timeout\r\n"...)
			owed = append(owed, own...)
		case 2: // times out; the late reply follows at once
			verifrt.Sleep(verifTimeoutMs + 20)
			w.Timeout()
			want = append(want, "-ERR proxy request timeout\r\n"...)
			w.Feed(s, append(append([]byte{}, owed...), own...))
			owed = nil
		}
		w.Timeout()
		out := w.Sent(c)
		verifrt.Assert(len(out) == len(want) && isPrefix(out, want), "C16_each_request_gets_its_own_reply_or_exactly_the_timeout_error")
		verifrt.Assert(c.Opened() && !w.Shutdown && c.InMsgCount() == 0, "C16_connection_stays_usable")
	}
	verifrt.ObserveBytes("client", w.Sent(c))
	verifrt.Cover("end", true)
}

// HarnessC15Reuse: a client disconnects with a request in flight on a backend connection; a new client
// connects (the kernel hands it the freed descriptor number) and sends a request that goes to the same
// backend connection - before or after the poller has run its tasks; then that backend connection is
// lost (EOF read, or noticed by the next write). Every request of the new client is answered (with an
// error) or the client is closed; nobody waits forever.
func HarnessC15Reuse(quiet int) {
	w, _ := verifWorld2(core.VerifDefaultOptions())
	a := w.NewClient("10.0.0.1:5000")
	k := []byte{'{', 'b', '}', '0', verifrt.Byte("key")}
	w.Feed(a, core.VerifEncode([]byte("get"), k))
	w.RunTasks()
	verifrt.Assert(len(w.ByAddr["A:1"]) == 1, "one_backend_connection")
	s := w.ByAddr["A:1"][0]
	w.HangUp(a)
	verifrt.Assert(!a.Opened(), "harness_first_client_closed")
	b := w.NewClient("10.0.0.2:5000")
	verifrt.Assert(b.Fd == a.Fd, "harness_descriptor_number_reused")
	nb := 1 + verifrt.Choice("second_request", 2)
	for i := 0; i < nb; i++ {
		w.Feed(b, core.VerifEncode([]byte("get"), []byte{'{', 'b', '}', byte('1' + i), 'x'}))
	}
	if verifrt.Choice("tasks_run_before_the_loss", 2) == 1 {
		w.RunTasks()
	}
	if quiet == 1 {
		w.CloseQuiet(s)
		w.RunTasks()
		w.Readable(s)
	} else {
		w.HangUp(s)
	}
	w.RunTasks()
	replies, rest := splitReplies(w.Sent(b))
	verifrt.ObserveBytes("client", w.Sent(b))
	answered := len(replies) == nb && len(rest) == 0
	// (the proxy may also have re-sent nothing and dialled a new connection for requests not yet written)
	for _, s2 := range w.ByAddr["A:1"] {
		if s2 != s && s2.Opened() {
			_, got := core.VerifRedisParse(w.Sent(s2))
			var rsp []byte
			for _, g := range got {
				rsp = append(rsp, replyFor(g)...)
			}
			w.Feed(s2, rsp)
		}
	}
	replies, rest = splitReplies(w.Sent(b))
	answered = len(replies) == nb && len(rest) == 0
	verifrt.Assert(answered || !b.Opened(), "C15_every_request_answered_or_client_closed")
	verifrt.Assert(!w.Shutdown, "proxy_keeps_running")
	verifrt.Cover("end", true)
}

// HarnessC13Wide: ONE split MGET over k slots (k fragments, on both nodes), EVERY fragment answered with a
// redirect to node C (MOVED or ASK, the solver's choice per fragment): each fragment is re-sent to C with
// its ASKING, C answers them, and the client receives exactly the k values in request order - however many
// fragments of the one request were redirected.
func HarnessC13Wide(k int) {
	w, _ := verifWorld2(core.VerifDefaultOptions())
	w.AddPool("C:1", false)
	c := w.NewClient("10.0.0.1:5000")
	tags := []byte("adehbcfgilmp") // single-letter hash tags with pairwise different slots
	args := [][]byte{[]byte("mget")}
	var keys [][]byte
	for i := 0; i < k; i++ {
		key := []byte{'{', tags[i], '}', 'x'}
		keys = append(keys, key)
		args = append(args, key)
	}
	w.Feed(c, core.VerifEncode(args...))
	w.RunTasks()
	// every fragment is answered with a redirect
	nfrag := 0
	asked := map[string]bool{}
	for _, s := range w.SortedServers() {
		if s.Addr == "C:1" {
			continue
		}
		_, got := core.VerifRedisParse(w.Sent(s))
		for _, g := range got {
			verifrt.Assert(len(g) == 2, "one_key_per_fragment")
			slot := core.VerifSpecSlotOf(g[1])
			kind := "-MOVED "
			if verifrt.Choice("ask", 2) == 1 {
				kind = "-ASK "
				asked[string(g[1])] = true
			}
			w.Feed(s, []byte(kind+vItoa(slot)+" C:1\r\n"))
			w.RunTasks()
			nfrag++
		}
	}
	verifrt.Assert(nfrag == k, "one_fragment_per_slot")
	verifrt.Assert(len(w.Sent(c)) == 0, "redirect_not_visible_to_client")
	verifrt.Assert(len(w.ByAddr["C:1"]) == 1, "fragments_resent_to_named_node")
	C := w.ByAddr["C:1"][0]
	_, gotC := core.VerifRedisParse(w.Sent(C))
	var rsp []byte
	n := 0
	for i, g := range gotC {
		if len(g) == 1 && string(g[0]) == "ASKING" {
			verifrt.Assert(i+1 < len(gotC) && len(gotC[i+1]) == 2 && asked[string(gotC[i+1][1])], "ASKING_immediately_before_its_request")
			rsp = append(rsp, "+OK\r\n"...)
			continue
		}
		verifrt.Assert(len(g) == 2 && string(g[0]) == "mget", "target_receives_the_fragments")
		if asked[string(g[1])] {
			verifrt.Assert(i > 0 && len(gotC[i-1]) == 1 && string(gotC[i-1][0]) == "ASKING", "ASK_fragment_preceded_by_ASKING")
		}
		rsp = append(rsp, append([]byte("*1\r\n"), bulk(g[1])...)...)
		n++
	}
	verifrt.Assert(n == k, "every_fragment_resent_exactly_once")
	w.Feed(C, rsp)
	want := []byte("*" + vItoa(k) + "\r\n")
	for _, key := range keys {
		want = append(want, bulk(key)...)
	}
	out := w.Sent(c)
	verifrt.ObserveBytes("client", out)
	verifrt.Assert(verifBytesEq(out, want), "client_receives_exactly_the_final_reply")
	verifrt.Assert(c.Opened() && !w.Shutdown, "client_and_proxy_stay_up")
	verifrt.Cover("end", true)
}

func init() {
	verifrt.Register("HarnessC13Wide", func(p []int64) { HarnessC13Wide(int(p[0])) })
	verifrt.Register("HarnessC15Reuse", func(p []int64) { HarnessC15Reuse(int(p[0])) })
	verifrt.Register("HarnessC16Seq", func(p []int64) { HarnessC16Seq(int(p[0])) })
	verifrt.Register("HarnessC13Seq", func(p []int64) { HarnessC13Seq(int(p[0]), int(p[1])) })
	verifrt.Register("HarnessC13", func(p []int64) { HarnessC13(int(p[0]), int(p[1])) })
}
