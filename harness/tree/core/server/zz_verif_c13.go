//go:build verif

package server

import (
	"rcproxy/core"
	"rcproxy/verifrt"
)

// HarnessC13: a request for a key on node B is answered by B with a redirect; the solver chooses
// the redirect kind (MOVED / ASK), whether the named node is known, the position of the redirected
// request in a two-request pipeline, whether it is a single-key request or a fragment of a split
// MGET, and when the other replies arrive.
//   split: 0 single GET, 1 MGET over both nodes (the fragment for B is redirected)
//   conns: connections per backend node (redis.server_connections); with more than one the pool hands
//          out a different connection on every Get, and ASKING only counts on the connection it was sent on
func HarnessC13(split, conns int) {
	o := core.VerifDefaultOptions()
	o.RedisServerConnections = conns
	w, _ := verifWorld2(o)
	w.AddPool("C:1", false) // a known node that owns nothing yet (the redirect target)
	c := w.NewClient("10.0.0.1:5000")
	kb := []byte{'{', 'a', '}', verifrt.Byte("key")} // slot 15495 -> B
	ka := []byte{'{', 'b', '}', verifrt.Byte("key")} // slot 3300  -> A
	var redirected, other *vReq
	if split == 1 {
		redirected = &vReq{bytes: core.VerifEncode([]byte("mget"), ka, kb), want: append([]byte("*2\r\n"), append(bulk(ka), bulk(kb)...)...)}
	} else {
		redirected = &vReq{bytes: core.VerifEncode([]byte("get"), kb), want: bulk(kb)}
	}
	other = &vReq{bytes: core.VerifEncode([]byte("get"), ka), want: bulk(ka)}
	first := verifrt.Bool("redirected_first")
	reqs := []*vReq{other, redirected}
	if first {
		reqs = []*vReq{redirected, other}
	}
	ask := verifrt.Bool("ask")
	known := verifrt.Bool("target_known")
	target := "C:1"
	if !known {
		target = "D:9"
	}
	w.Feed(c, append(append([]byte{}, reqs[0].bytes...), reqs[1].bytes...))
	w.RunTasks()
	verifrt.Assert(len(w.ByAddr["B:1"]) == 1 && len(w.ByAddr["A:1"]) >= 1, "both_nodes_contacted")
	B := w.ByAddr["B:1"][0]

	redirect := "-MOVED 15495 " + target + "\r\n"
	if ask {
		redirect = "-ASK 15495 " + target + "\r\n"
	}
	// B answers its only request with the redirect; A's replies may come before or after
	aFirst := verifrt.Bool("a_answers_first")
	answerA := func() {
		for _, A := range w.ByAddr["A:1"] {
			_, got := core.VerifRedisParse(w.Sent(A))
			for _, g := range got {
				w.Feed(A, replyFor(g))
			}
		}
	}
	if aFirst {
		answerA()
	}
	w.Feed(B, []byte(redirect))
	w.RunTasks()
	if !aFirst {
		answerA()
	}
	log := w.Sent(c)
	if !known {
		// the node named by the redirect is unknown: the request is answered with an error in its
		// place (nobody waits forever, C15) and the other request is unaffected
		replies, rest := splitReplies(log)
		verifrt.Assert(len(replies) == 2 && len(rest) == 0, "unknown_target_both_requests_answered")
		for j, r := range replies {
			own := len(r) == len(reqs[j].want) && isPrefix(r, reqs[j].want)
			if reqs[j] == redirected {
				verifrt.Assert(isProxyError(r), "unknown_target_answered_with_proxy_error")
			} else {
				verifrt.Assert(own, "other_request_unaffected")
			}
		}
		verifrt.Assert(c.Opened() && !w.Shutdown, "client_and_proxy_stay_up")
		verifrt.Cover("end", true)
		return
	}
	verifrt.Assert(len(w.ByAddr["C:1"]) >= 1, "request_resent_to_named_node")
	// exactly one connection to the named node carries the re-sent request - together with its ASKING
	var C *core.VerifConn
	for _, cc := range w.ByAddr["C:1"] {
		if len(w.Sent(cc)) > 0 {
			verifrt.Assert(C == nil, "asking_and_request_travel_on_one_connection")
			C = cc
		}
	}
	verifrt.Assert(C != nil, "request_resent_to_named_node")
	gotC := w.Sent(C)
	verifrt.ObserveBytes("to_target", gotC)
	// what the target must receive: [ASKING] + the redirected request/fragment, exactly once
	var wantC []byte
	if ask {
		wantC = append(wantC, "*1\r\n$6\r\nASKING\r\n"...)
	}
	if split == 1 {
		wantC = append(wantC, core.VerifEncode([]byte("mget"), kb)...)
	} else {
		wantC = append(wantC, core.VerifEncode([]byte("get"), kb)...)
	}
	verifrt.Assert(len(gotC) == len(wantC) && isPrefix(gotC, wantC), "target_receives_asking_then_request_once")
	// before the final node answers the client has at most the replies preceding the redirected request
	replies, rest := splitReplies(log)
	maxBefore := 0
	if !first {
		maxBefore = 1
	}
	verifrt.Assert(len(replies) <= maxBefore && len(rest) == 0, "redirect_not_visible_to_client")
	for j, r := range replies {
		verifrt.Assert(len(r) == len(reqs[j].want) && isPrefix(r, reqs[j].want), "replies_in_order")
	}
	// the final node answers
	if ask {
		w.Feed(C, []byte("+OK\r\n"))
	}
	if split == 1 {
		w.Feed(C, append([]byte("*1\r\n"), bulk(kb)...))
	} else {
		w.Feed(C, bulk(kb))
	}
	final, rest2 := splitReplies(w.Sent(c))
	verifrt.ObserveBytes("client", w.Sent(c))
	verifrt.Assert(len(final) == 2 && len(rest2) == 0, "client_receives_exactly_the_two_replies")
	for j, r := range final {
		verifrt.Assert(len(r) == len(reqs[j].want) && isPrefix(r, reqs[j].want), "final_replies_in_pipeline_order")
	}
	verifrt.Assert(c.Opened() && !w.Shutdown, "client_and_proxy_stay_up")
	verifrt.Cover("end", true)
}

func init() {
	verifrt.Register("HarnessC13", func(p []int64) { HarnessC13(int(p[0]), int(p[1])) })
}
