//go:build verif

package server

import (
	"rcproxy/core"
	"rcproxy/verifrt"
)

// vKeyOn: key on node A (tag b) or node B (tag a), chosen by the solver, last byte arbitrary.
func vKeyOn(label string) ([]byte, byte) {
	t := byte(verifrt.Concretize(int(verifrt.IteByte(verifrt.Bool(label+"_node"), 'a', 'b'))))
	return []byte{'{', t, '}', verifrt.Byte(label)}, t
}

// symbolic value: null, or a bulk of 0..2 arbitrary bytes (CR, LF included)
func vValue(label string, reduced bool) []byte {
	if reduced {
		if verifrt.Choice(label+"_shape", 2) == 0 {
			return []byte("$-1\r\n")
		}
		return bulk(verifrt.Bytes(label, 1))
	}
	switch verifrt.Choice(label+"_shape", 4) {
	case 0:
		return []byte("$-1\r\n")
	case 1:
		return []byte("$0\r\n\r\n")
	case 2:
		return bulk(verifrt.Bytes(label, 1))
	}
	return bulk(verifrt.Bytes(label, 2))
}

// errReply: an error reply a Redis node can produce: '-' followed by 8 arbitrary printable bytes
// (so "-LOADING ", "-WRONGTYP", "-TRYAGAIN", "-READONLY", "-CROSSSLO", "-ERR xyz " ... are all
// included), then fixed text. Excluded: the replies the proxy itself acts on (-MOVED, -ASK and the
// authentication errors).
func errReply(label string) []byte {
	code := verifrt.Bytes(label+"_code", 8)
	ok := true
	for _, b := range code {
		ok = verifrt.And(ok, verifrt.And(b >= ' ', b <= '~'))
	}
	is := func(s string) bool {
		r := true
		for i := range s {
			r = verifrt.And(r, code[i] == s[i])
		}
		return r
	}
	ok = verifrt.And(ok, verifrt.Not(verifrt.Or(verifrt.Or(is("ASK"), is("MOVED")), verifrt.Or(is("NOAUTH A"), is("ERR inva")))))
	ok = verifrt.And(ok, verifrt.Not(verifrt.Or(is("ERR Clie"), is("ERR AUTH"))))
	verifrt.Assume(ok)
	out := append([]byte{'-'}, code...)
	out = append(out, ' ', 'x')
	return append(out, '\r', '\n')
}

// HarnessC07: a split MGET / DEL / MSET whose fragments are answered in a solver-chosen order.
//   kind: 0 mget 1 del 2 mset ; k keys ; errs: 0 = no backend errors (C07), 1 = any fragment may be
//   answered with an error (C11), 2 = no errors, values null or one byte, replies in one read (longer key lists),
//   3 = as 2 and the REQUEST arrives in two reads, cut at any position
func HarnessC07(kind, k, errs int) {
	w, _ := verifWorld2(core.VerifDefaultOptions())
	c := w.NewClient("10.0.0.1:5000")
	name := []string{"mget", "del", "mset"}[kind]
	args := [][]byte{[]byte(name)}
	keys := make([][]byte, k)
	for i := range keys {
		keys[i], _ = vKeyOn("key")
		if errs == 3 {
			keys[i][3] = byte('x' + i%2) // the cut position is the subject here; key bytes are ordinary (and repeat from the third key on)
		}
		args = append(args, keys[i])
		if kind == 2 {
			args = append(args, []byte{verifrt.Byte("val")})
		}
	}
	if errs == 3 {
		// the request arrives in two reads, cut at a position chosen by the solver
		req := core.VerifEncode(args...)
		cut := verifrt.Concretize(verifrt.Int("request_cut", 1, len(req)-1))
		w.Feed(c, req[:cut])
		w.RunTasks()
		verifrt.Assert(len(w.Servers) == 0 && len(w.Sent(c)) == 0 && c.Opened(), "prefix_of_request_not_acted_on")
		w.Feed(c, req[cut:])
	} else {
		w.Feed(c, core.VerifEncode(args...))
	}
	w.RunTasks()
	verifrt.Assert(len(w.Sent(c)) == 0, "nothing_before_backends_answer")

	// what each backend answers for each key it was asked for (by position in its fragment)
	type fragAns struct {
		conn   *core.VerifConn
		keys   [][]byte
		vals   [][]byte // mget
		n      int      // del
		isErr  bool
		answer []byte
	}
	var frags []*fragAns
	anyErr := false
	for _, s := range w.SortedServers() {
		_, got := core.VerifRedisParse(w.Sent(s))
		verifrt.Assert(len(got) == 1, "one_fragment_per_node")
		fa := &fragAns{conn: s}
		step := 1
		if kind == 2 {
			step = 2
		}
		for i := 1; i < len(got[0]); i += step {
			fa.keys = append(fa.keys, got[0][i])
		}
		if errs == 1 && verifrt.Bool("frag_err") {
			fa.isErr = true
			fa.answer = errReply("err")
			anyErr = true
		} else {
			switch kind {
			case 0:
				fa.answer = []byte("*" + string(rune('0'+len(fa.keys))) + "\r\n")
				for j := range fa.keys {
					// equal keys get equal values (a node answers a key consistently within one MGET)
					var v []byte
					for jj := 0; jj < j; jj++ {
						if verifrt.Concretize(verifrt.Ite(verifBytesEq(fa.keys[jj], fa.keys[j]), 1, 0)) == 1 {
							v = fa.vals[jj]
						}
					}
					if v == nil && errs == 3 {
						v = bulk([]byte{byte('p' + j), verifrt.Byte("v")})
					}
					if v == nil {
						v = vValue("v", errs >= 2)
					}
					fa.vals = append(fa.vals, v)
					fa.answer = append(fa.answer, v...)
				}
			case 1:
				fa.n = verifrt.Int("deleted", 0, len(fa.keys))
				fa.n = verifrt.Concretize(fa.n)
				fa.answer = []byte(":" + string(rune('0'+fa.n)) + "\r\n")
			case 2:
				fa.answer = []byte("+OK\r\n")
			}
		}
		frags = append(frags, fa)
	}
	// arrival order chosen by the solver
	order := []int{0, 1}
	if len(frags) == 2 && verifrt.Bool("second_first") {
		order = []int{1, 0}
	}
	for n, oi := range order {
		if oi >= len(frags) {
			continue
		}
		fa := frags[oi]
		// the reply may arrive in two reads
		cut := 0
		if errs < 2 {
			cut = verifrt.Choice("cut", 2)
		}
		if cut == 1 && len(fa.answer) > 3 {
			w.Feed(fa.conn, fa.answer[:3])
			w.Feed(fa.conn, fa.answer[3:])
		} else {
			w.Feed(fa.conn, fa.answer)
		}
		if n < len(frags)-1 && !anyErr {
			verifrt.Assert(len(w.Sent(c)) == 0, "not_completed_before_last_fragment")
		}
	}
	out := w.Sent(c)
	verifrt.ObserveBytes("client", out)
	verifrt.Assert(!w.Shutdown && c.Opened(), "proxy_and_client_stay_up")
	if anyErr {
		// C11: an error for the whole request, never a success value
		verifrt.Assert(len(out) > 0 && out[0] == '-', "fragment_error_becomes_error_reply")
		rs, rest := splitReplies(out)
		verifrt.Assert(len(rs) == 1 && len(rest) == 0, "exactly_one_reply")
		verifrt.Cover("end", true)
		return
	}
	var want []byte
	switch kind {
	case 0:
		want = []byte("*" + string(rune('0'+k)) + "\r\n")
		for i := range keys {
			var v []byte
			for _, fa := range frags {
				for j := range fa.keys {
					if v == nil && len(fa.keys[j]) == len(keys[i]) && verifrt.Concretize(verifrt.Ite(verifBytesEq(fa.keys[j], keys[i]), 1, 0)) == 1 {
						v = fa.vals[j]
					}
				}
			}
			verifrt.Assert(v != nil, "harness_found_value_for_key")
			want = append(want, v...)
		}
	case 1:
		sum := 0
		for _, fa := range frags {
			sum += fa.n
		}
		want = []byte(":" + string(rune('0'+sum)) + "\r\n")
	case 2:
		want = []byte("+OK\r\n")
	}
	verifrt.Assert(len(out) == len(want) && isPrefix(out, want), "reassembled_reply_equals_oracle")
	verifrt.Cover("end", true)
}

// HarnessC11Single: a single-key request answered with an arbitrary error: delivered verbatim.
func HarnessC11Single() {
	w, _ := verifWorld2(core.VerifDefaultOptions())
	c := w.NewClient("10.0.0.1:5000")
	k, _ := vKeyOn("key")
	w.Feed(c, core.VerifEncode([]byte("get"), k))
	w.RunTasks()
	e := errReply("err")
	w.Feed(w.Servers[0], e)
	out := w.Sent(c)
	verifrt.ObserveBytes("client", out)
	verifrt.Assert(len(out) == len(e) && isPrefix(out, e), "error_delivered_verbatim")
	verifrt.Assert(!w.Shutdown && c.Opened(), "proxy_and_client_stay_up")
	// and the connection still works
	w.Feed(c, core.VerifEncode([]byte("get"), k))
	w.RunTasks()
	w.Feed(w.Servers[0], []byte("$1\r\nz\r\n"))
	verifrt.Assert(string(w.Sent(c)[len(e):]) == "$1\r\nz\r\n", "next_request_served")
	verifrt.Cover("end", true)
}

// HarnessC11Seq: n single-key requests one after the other, EVERY one answered by the node with the same
// arbitrary error reply (so runs of -LOADING, -MASTERDOWN, -ERR ... of any length up to n occur): each
// error reaches the client verbatim, once, and afterwards the connection still serves a normal request.
// Whatever the proxy counts or remembers per backend connection meets the next error.
//   distinct = 1: every request gets an error of a DIFFERENT kind (the last two letters of the 8-letter error
//   word change from one request to the next), so whatever the proxy keeps per kind of error grows with the run
func HarnessC11Seq(n, distinct int) {
	w, _ := verifWorld2(core.VerifDefaultOptions())
	c := w.NewClient("10.0.0.1:5000")
	e := errReply("err")
	if distinct == 1 {
		for i := 1; i < 9; i++ {
			verifrt.Assume(verifrt.And(e[i] >= 'A', e[i] <= 'Z')) // one capitalised word
		}
	}
	seen := map[*core.VerifConn]int{}
	var want []byte
	for i := 0; i <= n; i++ {
		k := []byte{'{', 'b', '}', byte('0' + i%10), 'x'}
		w.Feed(c, core.VerifEncode([]byte("get"), k))
		w.RunTasks()
		var target *core.VerifConn
		for _, s := range w.SortedServers() {
			if got := len(w.Sent(s)); got > seen[s] {
				seen[s] = got
				target = s
			}
		}
		verifrt.Assert(target != nil && target.Opened(), "request_forwarded")
		rsp := e
		if distinct == 1 {
			rsp = append([]byte{}, e...)
			rsp[7], rsp[8] = byte('A'+i%26), byte('A'+(i/26)%26)
		}
		if i == n {
			rsp = []byte("$1\r\nz\r\n")
		}
		w.Feed(target, rsp)
		want = append(want, rsp...)
		out := w.Sent(c)
		verifrt.Assert(len(out) == len(want) && isPrefix(out, want), "error_delivered_verbatim_every_time")
		verifrt.Assert(!w.Shutdown && c.Opened(), "proxy_and_client_stay_up")
	}
	verifrt.ObserveBytes("client", w.Sent(c))
	verifrt.Cover("end", true)
}

func init() {
	verifrt.Register("HarnessC11Seq", func(p []int64) { HarnessC11Seq(int(p[0]), int(p[1])) })
	verifrt.Register("HarnessC07", func(p []int64) { HarnessC07(int(p[0]), int(p[1]), int(p[2])) })
	verifrt.Register("HarnessC11Single", func(p []int64) { HarnessC11Single() })
}
