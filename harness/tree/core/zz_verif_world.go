//go:build verif

package core

// The "world": the real event loop, engine, pools and connections wired together without a
// listener and without epoll_wait. Every connection is one end of a socketpair; the harness owns the
// other end. The same code runs under the symbolic executor (which models the few syscalls used
// here) and natively (real socketpairs, real poller object) for replay.

import (
	"errors"

	"github.com/petar/GoLLRB/llrb"
	"golang.org/x/sys/unix"

	"rcproxy/core/internal/netpoll"
	"rcproxy/verifrt"
)

type VerifAddr string

func (a VerifAddr) Network() string { return "tcp" }
func (a VerifAddr) String() string  { return string(a) }

// VerifConn is a proxy-side connection plus the harness-side end of its socketpair.
type VerifConn struct {
	C    *conn
	Fd   int    // proxy side fd
	Peer int    // harness side fd
	Addr string // backend address (server conns)
	Log  []byte // everything the proxy wrote on this connection so far
	Seq  int    // dial sequence number (server conns)
}

type VerifWorld struct {
	El       *eventloop
	Eng      *engine
	Clients  []*VerifConn
	Servers  []*VerifConn          // in dial order
	ByAddr   map[string][]*VerifConn
	DialFail map[string]bool
	Dials    int
	Shutdown bool
}

var verifErrDial = errors.New("verif: dial refused")

func VerifDefaultOptions() *Options {
	return &Options{ReadBufferCap: 256, WriteBufferCap: 256, RedisMsgMaxLength: 6 * 1024 * 1024, RedisServerConnections: 1, RedisConnectionTimeout: 200, RedisPreconnect: true}
}

func VerifNewWorld(h EventHandler, opts *Options) *VerifWorld {
	p, err := netpoll.OpenPoller()
	if err != nil {
		panic(err)
	}
	eng := &engine{opts: opts, eventHandler: h}
	el := &eventloop{ln: &listener{addr: VerifAddr("proxy:0")}, engine: eng, poller: p,
		buffer: make([]byte, opts.ReadBufferCap), connections: make(map[int]*conn), eventHandler: h}
	eng.el = el
	EngineGlobal = &Engine{eng: eng, ProxyPool: make(map[string]*Pool),
		cCodec: CRespCodec{opts.RedisMsgMaxLength}, sCodec: SRespCodec{opts.RedisMsgMaxLength},
		clusterChan: make(chan []byte, 3)}
	timeoutTree = llrb.New()
	msgId, fragId = 0, 0
	return &VerifWorld{El: el, Eng: eng, ByAddr: map[string][]*VerifConn{}, DialFail: map[string]bool{}}
}

func verifSocketpair() (int, int) {
	fds, err := unix.Socketpair(unix.AF_UNIX, unix.SOCK_STREAM|unix.SOCK_NONBLOCK, 0)
	if err != nil {
		panic(err)
	}
	return fds[0], fds[1]
}

// AddPool installs a connection pool for a backend address; its Dial builds a server conn over a
// socketpair and runs the real eventloop.open (so OnSOpened and the AUTH/READONLY handshake are real).
func (w *VerifWorld) AddPool(addr string, isSlave bool) *Pool {
	// the pool is created the production way (engine.newPool: options copied into the pool, monitor
	// goroutine started - it first acts after 5 s, long after a replay has ended); only the dial
	// function is replaced
	p := w.Eng.newPool(addr, isSlave)
	p.Dial = w.dial
	EngineGlobal.ProxyPool[addr] = p
	EngineGlobal.ProxyAddrs = append(EngineGlobal.ProxyAddrs, addr)
	return p
}

// dial is the Dial function of every pool of the world: a server conn over a socketpair, opened by the
// real eventloop.open (so OnSOpened and the AUTH/READONLY handshake are the real code).
func (w *VerifWorld) dial(a string, slave bool) (SConn, error) {
	w.Dials++
	if w.DialFail[a] {
		return nil, verifErrDial
	}
	fd, peer := verifSocketpair()
	status := Initialized
	if len(w.Eng.opts.RedisPasswd) > 0 {
		status = InitializeNone
	}
	c := newTCPConn(fd, w.El, VerifAddr("proxy:1"), VerifAddr(a), ConnServer, status, slave)
	if err := w.El.poller.AddRead(c.pollAttachment); err != nil {
		return nil, err
	}
	w.El.connections[fd] = c
	vc := &VerifConn{C: c, Fd: fd, Peer: peer, Addr: a, Seq: len(w.Servers)}
	w.Servers = append(w.Servers, vc)
	w.ByAddr[a] = append(w.ByAddr[a], vc)
	if err := w.El.open(c); err != nil {
		return nil, err
	}
	return c, nil
}

// AdoptPools gives every pool the ticker has created for a newly discovered node (engine.newPool, whose
// Dial opens a TCP connection) the world's socketpair dial function.
func (w *VerifWorld) AdoptPools() {
	for _, p := range EngineGlobal.ProxyPool {
		p.Dial = w.dial
	}
}

// UseFakeInfo installs a fresh topology store whose INFO probes are answered by a fake (every node is
// loaded and, if a replica, linked to its master).
func (w *VerifWorld) UseFakeInfo() {
	EngineGlobal.ClusterNodes = ClusterNodes{redisWrapper: &verifRedis{link: "up"}}
}

// Topology hands a CLUSTER NODES text to the real updateClusterNodes, as the refresh loop does.
func (w *VerifWorld) Topology(text string) error {
	return EngineGlobal.ClusterNodes.updateClusterNodes(text)
}

// SetSlots makes [lo,hi] owned by a replica set with the given master and replicas.
func (w *VerifWorld) SetSlots(lo, hi int, master string, slaves ...string) {
	rs := &replicaset{Master: &ClusterNode{Addr: master, Role: Master}}
	for _, s := range slaves {
		rs.Slaves = append(rs.Slaves, &ClusterNode{Addr: s, Role: Slave})
	}
	for i := lo; i <= hi; i++ {
		EngineGlobal.Slots2Node.Set(int32(i), rs)
	}
}

// NewClient registers a client connection exactly as accept() does (register -> open -> OnCOpened).
func (w *VerifWorld) NewClient(remote string) *VerifConn {
	fd, peer := verifSocketpair()
	c := newTCPConn(fd, w.El, w.El.ln.addr, VerifAddr(remote), ConnClient, InitializeNone, false)
	vc := &VerifConn{C: c, Fd: fd, Peer: peer}
	w.Clients = append(w.Clients, vc)
	w.note(w.El.register(c))
	return vc
}

func (w *VerifWorld) note(err error) {
	if err != nil && err.Error() == "server is going to be shutdown" {
		w.Shutdown = true
	}
}

// Send puts bytes into the connection's socket from the harness side (the peer wrote them).
func (w *VerifWorld) Send(vc *VerifConn, data []byte) {
	if vc.Peer < 0 {
		return // the harness side was closed (HangUp)
	}
	for len(data) > 0 {
		n, err := unix.Write(vc.Peer, data)
		if err == unix.EPIPE || err == unix.ECONNRESET {
			return // the proxy has closed this connection: the bytes go nowhere
		}
		if err != nil {
			panic("verif: harness-side write failed: " + err.Error())
		}
		data = data[n:]
	}
}

// registered: epoll only reports descriptors the event loop still has registered.
func (w *VerifWorld) registered(vc *VerifConn) bool {
	c, ok := w.El.connections[vc.Fd]
	return ok && c == vc.C
}

// Readable delivers a readable event for the connection to the real event-loop callback.
func (w *VerifWorld) Readable(vc *VerifConn) {
	if !w.registered(vc) {
		return
	}
	w.note(w.El.callback(vc.Fd, netpoll.InEvents&^netpoll.ErrEvents))
}

// Writable delivers a writable event.
func (w *VerifWorld) Writable(vc *VerifConn) {
	if !w.registered(vc) || !verifrt.WantsWrite(vc.Fd) {
		return // epoll only reports writability of descriptors registered for it
	}
	w.note(w.El.callback(vc.Fd, netpoll.OutEvents&^netpoll.ErrEvents))
}

// Feed = Send + Readable.
func (w *VerifWorld) Feed(vc *VerifConn, data []byte) {
	w.Send(vc, data)
	w.Readable(vc)
}

// FeedAll = Send + as many readable events as the event loop needs to take all of it in (the loop
// reads at most one buffer-full per event; epoll is level-triggered and keeps reporting the descriptor).
func (w *VerifWorld) FeedAll(vc *VerifConn, data []byte) {
	w.Send(vc, data)
	per := len(w.El.buffer)
	for n := 0; n < len(data); n += per {
		w.Readable(vc)
	}
}

// Sent drains what the proxy wrote on the connection and returns the whole log so far.
func (w *VerifWorld) Sent(vc *VerifConn) []byte {
	var buf [512]byte
	for vc.Peer >= 0 {
		n, err := unix.Read(vc.Peer, buf[:])
		if n <= 0 || err != nil {
			break
		}
		vc.Log = append(vc.Log, buf[:n]...)
	}
	return vc.Log
}

// PeerClosed reports whether the proxy has closed its end (EOF seen by the harness side).
func (w *VerifWorld) PeerClosed(vc *VerifConn) bool {
	if vc.Peer < 0 {
		return false
	}
	w.Sent(vc)
	var b [1]byte
	n, err := unix.Read(vc.Peer, b[:])
	if n > 0 {
		vc.Log = append(vc.Log, b[:n]...)
		return false
	}
	return n == 0 && err == nil
}

// HangUp closes the harness side (the peer went away) and lets the proxy notice.
func (w *VerifWorld) HangUp(vc *VerifConn) {
	if vc.Peer < 0 {
		return
	}
	w.Sent(vc) // keep what the proxy wrote so far
	_ = unix.Close(vc.Peer)
	// the kernel hands the descriptor number out again to the next socketpair: never touch it through
	// this connection again
	vc.Peer = -1
	w.Readable(vc)
}

// CloseQuiet closes the harness side WITHOUT a readable event: the proxy finds out when it next writes
// to the connection (EPIPE / ECONNRESET) or when the pending readable event is finally delivered.
func (w *VerifWorld) CloseQuiet(vc *VerifConn) {
	if vc.Peer < 0 {
		return
	}
	w.Sent(vc)
	_ = unix.Close(vc.Peer)
	vc.Peer = -1
}

// RunTasks lets the poller run its queued asynchronous tasks (write signals, async writes, closes).
func (w *VerifWorld) RunTasks() int {
	n, err := w.El.poller.VerifDrain()
	w.note(err)
	return n
}

func (w *VerifWorld) TasksPending() bool { return w.El.poller.VerifPending() }

// Timeout runs the end-of-iteration timeout sweep; Tick runs the start-of-iteration ticker.
func (w *VerifWorld) Timeout() { w.El.msgTimeout() }
func (w *VerifWorld) Tick()    { w.El.ticker() }

func (vc *VerifConn) Opened() bool { return vc.C.opened }

func (vc *VerifConn) InMsgCount() int {
	if vc.C.inMsgQueue == nil {
		return 0
	}
	return vc.C.inMsgQueue.count
}

func (vc *VerifConn) InFragCount() int {
	if vc.C.inFragQueue == nil {
		return 0
	}
	return vc.C.inFragQueue.count
}

func (vc *VerifConn) OutFragCount() int {
	if vc.C.outFragQueue == nil {
		return 0
	}
	return vc.C.outFragQueue.count
}

// DoneHeadCount = number of consecutive completed requests at the head of the client's queue.
func (vc *VerifConn) DoneHeadCount() int {
	if vc.C.inMsgQueue == nil {
		return 0
	}
	n := 0
	for cur := vc.C.inMsgQueue.head; cur != nil && cur.Done; cur = cur.prev {
		n++
	}
	return n
}

// QueueDone returns the completion flag of every request in the client's queue, oldest first.
func (vc *VerifConn) QueueDone() []bool {
	var out []bool
	if vc.C.inMsgQueue == nil {
		return out
	}
	for cur := vc.C.inMsgQueue.head; cur != nil; cur = cur.prev {
		out = append(out, cur.Done)
	}
	return out
}

func (vc *VerifConn) OutboundBuffered() int {
	if vc.C.outboundBuffer == nil {
		return 0
	}
	return vc.C.outboundBuffer.Buffered()
}

func (vc *VerifConn) InboundBuffered() int { return vc.C.inboundBuffer.Buffered() }

// SetLimits sets the request and reply size limits independently (production sets both from one option).
func (w *VerifWorld) SetLimits(req, rsp int) {
	EngineGlobal.cCodec.MsgMaxLength = req
	EngineGlobal.sCodec.MsgMaxLength = rsp
}

// VerifClearSlots makes [lo,hi] unowned.
func VerifClearSlots(lo, hi int) {
	for i := lo; i <= hi; i++ {
		EngineGlobal.Slots2Node.Set(int32(i), nil)
	}
}

// VerifBan marks a pool as banned for a long time (replica considered unhealthy).
func VerifBan(addr string) {
	p := EngineGlobal.ProxyPool[addr]
	p.AutoBanFlag = true
}

// SortedServers returns the backend connections ordered by address, then by dial sequence. Harnesses
// iterate in this order (not in dial order, which depends on Go's map iteration order in OnCReact)
// so that the same inputs mean the same thing in the interpreter and in a native run.
func (w *VerifWorld) SortedServers() []*VerifConn {
	out := append([]*VerifConn{}, w.Servers...)
	for i := 1; i < len(out); i++ {
		for j := i; j > 0 && (out[j].Addr < out[j-1].Addr || (out[j].Addr == out[j-1].Addr && out[j].Seq < out[j-1].Seq)); j-- {
			out[j], out[j-1] = out[j-1], out[j]
		}
	}
	return out
}

// Probe sends the periodic CLUSTER NODES probe to a node, as OnTicker does (an ownerless fragment
// on that node's connection).
func (w *VerifWorld) Probe(addr string) {
	p, ok := EngineGlobal.ProxyPool[addr]
	if !ok {
		return
	}
	if sc := p.Get(); sc != nil {
		_ = sc.WriteClusterNodes()
	}
}

// Retopo installs a new topology the way the refresh loop does after a changed CLUSTER NODES reply
// (the real setServer / setReplicaset, then serverChanged): masters[i] serves ranges[i]. The next
// ticker run closes the pools of nodes that are gone and rebuilds the slot table.
func (w *VerifWorld) Retopo(masters []string, ranges [][2]int, replicas ...[]string) {
	var nodes []*ClusterNode
	for i, m := range masters {
		nodes = append(nodes, &ClusterNode{Name: m, Addr: m, Role: Master, Connected: true,
			Slots: []Slots{{Start: int32(ranges[i][0]), End: int32(ranges[i][1])}}})
	}
	for i, rs := range replicas {
		for _, r := range rs {
			nodes = append(nodes, &ClusterNode{Name: r, Addr: r, Role: Slave, MasterId: masters[i], Connected: true})
		}
	}
	cn := &EngineGlobal.ClusterNodes
	cn.setServer(nodes)
	cn.setReplicaset(nodes)
	cn.serverChanged = true
}

// verifAdopting wraps the production handler: before the handler's own OnTicker (which opens a
// connection to send the topology probe) every pool the ticker has just created gets the world's
// socketpair dial function. With Probes false the handler's OnTicker is skipped altogether.
type verifAdopting struct {
	EventHandler
	w      *VerifWorld
	Probes bool
}

func (h *verifAdopting) OnTicker() {
	h.w.AdoptPools()
	if h.Probes {
		h.EventHandler.OnTicker()
	}
}

// AdoptOnTicker makes the event loop call AdoptPools at the point where the real ticker hands over to
// the handler's OnTicker.
func (w *VerifWorld) AdoptOnTicker(probes bool) {
	h := &verifAdopting{EventHandler: w.El.eventHandler, w: w, Probes: probes}
	w.El.eventHandler = h
	w.Eng.eventHandler = h
}
