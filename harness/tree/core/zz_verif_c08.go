//go:build verif

package core

import (
	"rcproxy/core/codec"
	"rcproxy/verifrt"
)

// verifShape builds one well-formed request of a given shape with arbitrary payload bytes.
//   0: GET k(1)   1: SET k(1) v(2)   2: MGET k(1) k(1)   3: PING   4: <3 arbitrary name bytes> k(1)
//   5: GET k(0)   6: DEL k(2)        7: SET k(1) v(0)
func verifShape(shape int) []byte {
	b := func(n int) []byte { return verifrt.Bytes("p", n) }
	switch shape {
	case 0:
		return VerifEncode(verifCaseMix("case", "get"), b(1))
	case 1:
		return VerifEncode([]byte("set"), b(1), b(2))
	case 2:
		return VerifEncode([]byte("MGET"), b(1), b(1))
	case 3:
		return VerifEncode([]byte("ping"))
	case 4:
		return VerifEncode(b(3), b(1))
	case 5:
		return VerifEncode([]byte("get"), b(0))
	case 6:
		return VerifEncode([]byte("del"), b(2))
	case 7:
		return VerifEncode([]byte("set"), b(1), b(0))
	}
	return nil
}

func verifMsgsEqual(a, b []*VerifMsg) bool {
	if len(a) != len(b) {
		return false
	}
	ok := true
	for i := range a {
		if a[i].Type != b[i].Type || len(a[i].Keys) != len(b[i].Keys) || len(a[i].Frags) != len(b[i].Frags) {
			return false
		}
		for j := range a[i].Keys {
			ok = verifrt.And(ok, verifBytesEq([]byte(a[i].Keys[j]), []byte(b[i].Keys[j])))
		}
		// fragments are compared as sets keyed by slot
		for _, fa := range a[i].Frags {
			found := false
			for _, fb := range b[i].Frags {
				found = verifrt.Or(found, verifrt.And(fa.Slot == fb.Slot, verifBytesEq(fa.Req, fb.Req)))
			}
			ok = verifrt.And(ok, found)
		}
	}
	return ok
}

// HarnessC08: a stream of two requests (shapes s1, s2) is decoded once in a single read and once cut
// into reads at c1 (and c2 when c2 > c1): the same requests must be recognised; after a proper
// prefix nothing is treated as an error and the bytes are retained.
func HarnessC08(s1, s2, c1, c2 int) { verifC08(s1, s2, c1, c2, 0) }

// HarnessC08Hist: as HarnessC08, but the proxy has a past when the stream arrives: another client sent
// the beginning of a request that ends inside a bulk argument (announced length 100, two bytes
// delivered, in one or two reads) and then either disconnected (hist=1: the next client gets the same
// descriptor number, as the kernel hands out the lowest free one) or is still there (hist=2); or a
// backend reply was cut inside a bulk value (hist=3). Whatever a decoder remembers from that must not
// change how the stream of THIS connection is framed.
func HarnessC08Hist(s1, s2, c1, c2, hist int) { verifC08(s1, s2, c1, c2, hist) }

func verifC08(s1, s2, c1, c2, hist int) {
	stream := append(verifShape(s1), verifShape(s2)...)
	L := len(stream)
	if c1 < 0 {
		c1 = verifrt.Concretize(verifrt.Int("cut1", 1, L-1)) // every cut position
		if c2 < 0 {
			c2 = verifrt.Concretize(verifrt.Int("cut2", c1+1, L))
		}
	}
	verifrt.Assume(c1 > 0 && c1 < L)

	wa, ha, ca := verifDecodeWorld(0)
	wa.Feed(ca, stream)
	verifrt.Assert(len(ha.Msgs) == 2 && ca.Opened() && ca.InboundBuffered() == 0, "uncut_stream_yields_two_requests")
	ref := ha.Msgs

	wb, hb, cb := verifDecodeWorld(0)
	base := 0
	switch hist {
	case 1, 2:
		old := cb
		wb.Feed(old, []byte("*2\r\n$3\r\nget\r\n$100\r\nx"))
		wb.Feed(old, []byte("y"))
		verifrt.Assert(len(hb.Msgs) == 0 && old.Opened(), "prefix_of_valid_stream_never_closes")
		if hist == 1 {
			wb.HangUp(old)
			verifrt.Assert(!old.Opened(), "harness_old_client_closed")
		}
		cb = wb.NewClient("10.0.0.2:5000")
		if hist == 1 {
			verifrt.Assert(cb.Fd == old.Fd, "harness_descriptor_number_reused")
		}
	case 3:
		// a backend connection whose oldest request is answered by a bulk reply cut inside the value
		wb.AddPool("A:1", false)
		sc := EngineGlobal.ProxyPool["A:1"].Get()
		verifrt.Assert(sc != nil, "harness_backend_connection")
		_ = sc.WriteClusterNodes()
		wb.RunTasks()
		wb.RunTasks()
		wb.Feed(wb.ByAddr["A:1"][0], []byte("$100\r\nab"))
	}
	base = len(hb.Msgs)
	cuts := []int{0, c1}
	if c2 > c1 && c2 < L {
		cuts = append(cuts, c2)
	}
	cuts = append(cuts, L)
	for i := 0; i+1 < len(cuts); i++ {
		wb.Feed(cb, stream[cuts[i]:cuts[i+1]])
		verifrt.Assert(cb.Opened(), "prefix_of_valid_stream_never_closes")
		verifrt.Assert(len(wb.Sent(cb)) == 0, "prefix_of_valid_stream_no_reply")
		// bytes not yet consumed are retained: consumed + buffered == delivered
		_, nref := VerifStrictScan(stream[:cuts[i+1]])
		verifrt.Assert(len(hb.Msgs)-base == nref, "requests_recognised_as_soon_as_complete")
	}
	verifrt.ObserveInt("n", len(hb.Msgs))
	verifrt.Assert(verifMsgsEqual(ref, hb.Msgs[base:]), "same_requests_whatever_the_segmentation")
	verifrt.Assert(cb.InboundBuffered() == 0, "nothing_left_over")
	verifrt.Cover("end", true)
}

// HarnessC02Req: a single-key request with arbitrary argument bytes (binary, CR/LF, empty) is
// handed to the backend byte-exact apart from the letter case of the command name.
//   nargs: number of arguments after the command name; alen: length of each
func HarnessC02Req(nargs, alen int) {
	sup := codec.VerifSupported()
	var cands []string
	for _, n := range sup {
		cls := codec.VerifRefArityOf(n)
		if n == "mget" || n == "del" || n == "mset" || n == "ping" || n == "quit" || n == "auth" {
			continue
		}
		if codec.VerifArityOK(cls, nargs) && !((n == "eval" || n == "evalsha") && nargs < 3) {
			cands = append(cands, n)
		}
	}
	verifrt.Assume(len(cands) > 0)
	lower := cands[verifrt.Choice("cmd", len(cands))]
	name := verifCaseMix("case", lower)
	args := [][]byte{name}
	for i := 0; i < nargs; i++ {
		args = append(args, verifrt.Bytes("arg", alen))
	}
	req := VerifEncode(args...)
	w, h, c := verifDecodeWorld(0)
	w.Feed(c, req)
	verifrt.Assert(len(h.Msgs) == 1 && len(h.Msgs[0].Frags) == 1, "one_request_one_fragment")
	got := h.Msgs[0].Frags[0].Req
	verifrt.ObserveBytes("forwarded", got)
	verifrt.Assert(len(got) == len(req), "same_length")
	// name span: bytes 4+len("$n\r\n") .. ; compare ignoring case there, exactly elsewhere
	hdr := len("*" + verifItoa(nargs+1) + "\r\n$" + verifItoa(len(lower)) + "\r\n")
	ok := true
	for i := range req {
		if i >= hdr && i < hdr+len(lower) {
			a, b := req[i], got[i]
			la := verifrt.IteByte(verifrt.And(a >= 'A', a <= 'Z'), a|0x20, a)
			lb := verifrt.IteByte(verifrt.And(b >= 'A', b <= 'Z'), b|0x20, b)
			ok = verifrt.And(ok, la == lb)
		} else {
			ok = verifrt.And(ok, req[i] == got[i])
		}
	}
	verifrt.Assert(ok, "request_bytes_unchanged_apart_from_command_case")
	// the fragment is filed under the specification slot of the key (first argument; third for scripts)
	ki := 1
	if lower == "eval" || lower == "evalsha" {
		ki = 3
	}
	verifrt.Assert(int(h.Msgs[0].Frags[0].Slot) == verifSpecSlot(args[ki]), "filed_under_the_key_slot")
	verifrt.Cover("end", true)
}

func init() {
	verifrt.Register("HarnessC08Hist", func(p []int64) { HarnessC08Hist(int(p[0]), int(p[1]), int(p[2]), int(p[3]), int(p[4])) })
	verifrt.Register("HarnessC08", func(p []int64) { HarnessC08(int(p[0]), int(p[1]), int(p[2]), int(p[3])) })
	verifrt.Register("HarnessC02Req", func(p []int64) { HarnessC02Req(int(p[0]), int(p[1])) })
}
