//go:build verif

package authip

import "rcproxy/verifrt"

var verifIPs = []string{"10.0.0.1", "10.0.0.2", "10.0.0.3"}

func verifYAML(enable bool, list []string) []byte {
	s := "enable: false\n"
	if enable {
		s = "enable: true\n"
	}
	s += "ip_white_list:\n"
	for _, ip := range list {
		s += "  - " + ip + "\n"
	}
	return []byte(s)
}

// VerifReload rewrites the whitelist file with a solver-chosen content and runs the real reload
// (parseAuthIp, what the file watcher calls). It returns the content it wrote.
func VerifReload(a *AuthIp) (enable bool, listed [3]bool) { return VerifReloadLines(a, false) }

// VerifReloadLines: with lines == true the file has three list lines, each empty or any of the three
// addresses - so an address may be listed twice (a copy/paste slip) and the number of lines says
// nothing about the number of addresses.
func VerifReloadLines(a *AuthIp, lines bool) (enable bool, listed [3]bool) {
	enable = verifrt.Concretize(verifrt.Ite(verifrt.Bool("enable"), 1, 0)) == 1
	var list []string
	if lines {
		for l := 0; l < 3; l++ {
			if k := verifrt.Choice("line", 4); k > 0 {
				listed[k-1] = true
				list = append(list, verifIPs[k-1])
			}
		}
	} else {
		for i, ip := range verifIPs {
			listed[i] = verifrt.Concretize(verifrt.Ite(verifrt.Bool("listed"), 1, 0)) == 1
			if listed[i] {
				list = append(list, ip)
			}
		}
	}
	verifrt.PutFile(a.name, verifYAML(enable, list))
	if err := a.parseAuthIp(); err != nil {
		verifrt.Assert(false, "reload_reads_the_file")
	}
	return
}

func VerifNewAuthIp() *AuthIp {
	dir := verifrt.TempDir()
	IpMap = ipMap{}
	return &AuthIp{path: dir, name: dir + "/authip.yml"}
}

// HarnessC18: after any history of `reloads` rewrites of the whitelist file, the admitted set is
// exactly what the LAST content says.
//   dupAt: the (1-based) rewrite whose list is written line by line with possible duplicates (0: none)
func HarnessC18(reloads, dupAt int) {
	a := VerifNewAuthIp()
	var enable bool
	var listed [3]bool
	for r := 0; r < reloads; r++ {
		enable, listed = VerifReloadLines(a, r+1 == dupAt)
	}
	for i, ip := range verifIPs {
		got := IpMap.Validate(ip)
		verifrt.ObserveBool("admit", got)
		verifrt.Assert(got == (!enable || listed[i]), "admitted_set_equals_file_content")
	}
	verifrt.Assert(IpMap.Validate("192.168.1.1") == !enable, "unlisted_address")
	verifrt.Cover("end", true)
}

func init() {
	verifrt.Register("HarnessC18", func(p []int64) { HarnessC18(int(p[0]), int(p[1])) })
}
