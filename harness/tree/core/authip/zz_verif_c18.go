//go:build verif

package authip

import "rcproxy/verifrt"

var verifIPs = []string{"10.0.0.1", "10.0.0.2", "10.0.0.3"}

func verifYAML(enable bool, list []string) []byte {
	s := "enable: false\n"
	if enable {
		s = "enable: true\n"
	}
	s += "ip_white_list:\n"
	for _, ip := range list {
		s += "  - " + ip + "\n"
	}
	return []byte(s)
}

// VerifReload rewrites the whitelist file with a solver-chosen content and runs the real reload
// (parseAuthIp, what the file watcher calls). It returns the content it wrote.
func VerifReload(a *AuthIp) (enable bool, listed [3]bool) {
	enable = verifrt.Concretize(verifrt.Ite(verifrt.Bool("enable"), 1, 0)) == 1
	var list []string
	for i, ip := range verifIPs {
		listed[i] = verifrt.Concretize(verifrt.Ite(verifrt.Bool("listed"), 1, 0)) == 1
		if listed[i] {
			list = append(list, ip)
		}
	}
	verifrt.PutFile(a.name, verifYAML(enable, list))
	if err := a.parseAuthIp(); err != nil {
		verifrt.Assert(false, "reload_reads_the_file")
	}
	return
}

func VerifNewAuthIp() *AuthIp {
	dir := verifrt.TempDir()
	IpMap = ipMap{}
	return &AuthIp{path: dir, name: dir + "/authip.yml"}
}

// HarnessC18: after any history of `reloads` rewrites of the whitelist file, the admitted set is
// exactly what the LAST content says.
func HarnessC18(reloads int) {
	a := VerifNewAuthIp()
	var enable bool
	var listed [3]bool
	for r := 0; r < reloads; r++ {
		enable, listed = VerifReload(a)
	}
	for i, ip := range verifIPs {
		got := IpMap.Validate(ip)
		verifrt.ObserveBool("admit", got)
		verifrt.Assert(got == (!enable || listed[i]), "admitted_set_equals_file_content")
	}
	verifrt.Assert(IpMap.Validate("192.168.1.1") == !enable, "unlisted_address")
	verifrt.Cover("end", true)
}

func init() {
	verifrt.Register("HarnessC18", func(p []int64) { HarnessC18(int(p[0])) })
}
