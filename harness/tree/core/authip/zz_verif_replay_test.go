//go:build verif

package authip

import (
	"testing"

	"rcproxy/verifrt"
)

func TestVerifReplay(t *testing.T) {
	if !verifrt.ReplayMain() {
		t.Skip("no witness")
	}
}
