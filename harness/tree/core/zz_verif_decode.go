//go:build verif

package core

// Harnesses for the client-side decoder: C06 (splitting), C17 (admission), C12 (raw bytes), C08
// (segmentation), C02 request half. They drive the real eventloop.read -> conn.cread ->
// CRespCodec.Decode path of a world whose event handler only records what was decoded.

import (
	"rcproxy/core/codec"
	"rcproxy/core/pkg/hashkit"
	"rcproxy/verifrt"
)

type VerifFrag struct {
	Slot int32
	Req  []byte
	Key  string
}

type VerifMsg struct {
	Type  codec.Command
	Keys  []string
	Frags []VerifFrag
}

// VerifCapture records decoded requests instead of routing them. Out/Act let a harness choose the
// handler's answer (nil/None = "queued", like a forwarded request).
type VerifCapture struct {
	BuiltinEventEngine
	Msgs       []*VerifMsg
	Closed     int
	LocalFirst int // answer this many initial requests locally (their Msg objects get recycled)
}

func (h *VerifCapture) OnCReact(r *Msg, c CConn) ([]byte, Action) {
	m := &VerifMsg{Type: r.Type, Keys: append([]string{}, r.Keys...)}
	for slot, f := range r.Body {
		m.Frags = append(m.Frags, VerifFrag{Slot: slot, Req: append([]byte{}, f.Req...), Key: f.Key})
	}
	h.Msgs = append(h.Msgs, m)
	if h.LocalFirst > 0 {
		h.LocalFirst--
		return []byte("-ERR local\r\n"), None
	}
	return nil, None
}

func (h *VerifCapture) OnCClosed(c CConn, err error) { h.Closed++ }

// ---- reference RESP request encoding / strict recogniser (the oracle side) ----

func verifItoa(n int) string {
	if n == 0 {
		return "0"
	}
	var b []byte
	for n > 0 {
		b = append([]byte{byte('0' + n%10)}, b...)
		n /= 10
	}
	return string(b)
}

func VerifEncode(args ...[]byte) []byte {
	out := []byte("*" + verifItoa(len(args)) + "\r\n")
	for _, a := range args {
		out = append(out, ("$" + verifItoa(len(a)) + "\r\n")...)
		out = append(out, a...)
		out = append(out, '\r', '\n')
	}
	return out
}

// verifParseStrict parses one canonical multibulk request whose framing bytes are concrete
// (digits, '*', '$', CRLF); payload bytes may be anything. ok=false if it is not exactly one
// canonical request.
func verifParseStrict(b []byte) (args [][]byte, ok bool) {
	p := 0
	num := func() (int, bool) {
		if p >= len(b) || b[p] < '0' || b[p] > '9' {
			return 0, false
		}
		if b[p] == '0' && p+1 < len(b) && b[p+1] != '\r' {
			return 0, false
		}
		n := 0
		for p < len(b) && b[p] >= '0' && b[p] <= '9' {
			n = n*10 + int(b[p]-'0')
			p++
			if n > 1<<20 {
				return 0, false
			}
		}
		if p+1 >= len(b) || b[p] != '\r' || b[p+1] != '\n' {
			return 0, false
		}
		p += 2
		return n, true
	}
	if len(b) == 0 || b[0] != '*' {
		return nil, false
	}
	p = 1
	n, good := num()
	if !good || n < 1 {
		return nil, false
	}
	for i := 0; i < n; i++ {
		if p >= len(b) || b[p] != '$' {
			return nil, false
		}
		p++
		l, good := num()
		if !good || p+l+2 > len(b) {
			return nil, false
		}
		args = append(args, b[p:p+l])
		p += l
		if b[p] != '\r' || b[p+1] != '\n' {
			return nil, false
		}
		p += 2
	}
	return args, p == len(b)
}

// specSlot: Redis Cluster key slot, branch-free over contents (same oracle as C05's).
func verifSpecSlot(k []byte) int {
	n := len(k)
	s := n
	for i := n - 1; i >= 0; i-- {
		s = verifrt.Ite(k[i] == '{', i, s)
	}
	e := n
	for i := n - 1; i >= 0; i-- {
		e = verifrt.Ite(verifrt.And(k[i] == '}', i > s), i, e)
	}
	useTag := verifrt.And(s < n, verifrt.And(e < n, e > s+1))
	var whole, tag uint16
	for i := 0; i < n; i++ {
		whole = (whole << 8) ^ verifCrcTab[byte(whole>>8)^k[i]]
		in := verifrt.And(i > s, i < e)
		nt := (tag << 8) ^ verifCrcTab[byte(tag>>8)^k[i]]
		tag = uint16(verifrt.Ite(in, int(nt), int(tag)))
	}
	return verifrt.Ite(useTag, int(tag&16383), int(whole&16383))
}

var verifCrcTab = func() (t [256]uint16) {
	for i := 0; i < 256; i++ {
		crc := uint16(i) << 8
		for j := 0; j < 8; j++ {
			m := -(crc >> 15)
			crc = (crc << 1) ^ (0x1021 & m)
		}
		t[i] = crc
	}
	return
}()

func verifBytesEq(a, b []byte) bool {
	if len(a) != len(b) {
		return false
	}
	r := true
	for i := range a {
		r = verifrt.And(r, a[i] == b[i])
	}
	return r
}

func verifEqFold(a []byte, lower string) bool {
	if len(a) != len(lower) {
		return false
	}
	r := true
	for i := range a {
		c := a[i]
		lc := verifrt.IteByte(verifrt.And(c >= 'A', c <= 'Z'), c|0x20, c)
		r = verifrt.And(r, lc == lower[i])
	}
	return r
}

// verifCaseMix returns name with a solver-chosen letter case per character.
func verifCaseMix(label, lower string) []byte {
	out := make([]byte, len(lower))
	for i := range out {
		up := verifrt.Bool(label)
		out[i] = verifrt.IteByte(up, lower[i]&^0x20, lower[i])
	}
	return out
}

func verifDecodeWorld(limit int) (*VerifWorld, *VerifCapture, *VerifConn) {
	h := &VerifCapture{}
	o := VerifDefaultOptions()
	if limit > 0 {
		o.RedisMsgMaxLength = limit
	}
	w := VerifNewWorld(h, o)
	c := w.NewClient("10.0.0.1:5000")
	return w, h, c
}

// ---------------------------------------------------------------------------------------------
// C06: MGET / DEL / MSET are split into one exact fragment per slot.
//   kind: 0 mget, 1 del, 2 mset ; k keys ; every key has L bytes, every value V bytes.
// ---------------------------------------------------------------------------------------------

func HarnessC06(kind, k, L, V int) { verifC06(kind, k, L, V, 0) }

// HarnessC06Warm: as HarnessC06, but the request object comes from the pool after it served a
// wider request (a 7-key MGET) before: splitting must not depend on the object's history.
func HarnessC06Warm(kind, k, L, V int) { verifC06(kind, k, L, V, 1) }

// HarnessC06Refused: as HarnessC06, but the request object comes from the pool after a multi-key request
// of a solver-chosen family (MGET / DEL / MSET) that was split and then REFUSED for exceeding the request
// size limit (limit 70 bytes): nothing of the refused request may leak into the next one.
func HarnessC06Refused(kind, k, L, V int) { verifC06(kind, k, L, V, 2) }

func verifC06(kind, k, L, V, warm int) {
	names := []string{"mget", "del", "mset"}
	name := names[kind]
	limit := 0
	if warm == 2 {
		limit = 70
	}
	w, h, c := verifDecodeWorld(limit)
	if warm == 2 {
		big := [][]byte{[]byte(names[verifrt.Choice("refused_family", 3)])}
		for i := 0; i < 8; i++ {
			big = append(big, []byte{'{', 'w', '}', byte('1' + i)})
		}
		h.LocalFirst = 1 // the handler answers it locally (as the real handler does), so the object is recycled
		w.Feed(c, VerifEncode(big...))
		verifrt.Assert(len(h.Msgs) == 1 && h.Msgs[0].Type == codec.ReqTooLarge && c.Opened(), "oversized_request_refused")
		h.Msgs = nil
		w.Sent(c)
	}
	if warm == 1 {
		h.LocalFirst = 1
		w.Feed(c, VerifEncode([]byte("mget"), []byte("{w}1"), []byte("{w}2"), []byte("{w}3"), []byte("{w}4"), []byte("{w}5"), []byte("{w}6"), []byte("{w}7")))
		verifrt.Assert(len(h.Msgs) == 1, "warm_up_decoded")
		h.Msgs = nil
		w.Sent(c)
	}
	args := [][]byte{verifCaseMix("case", name)}
	var keys, vals [][]byte
	for i := 0; i < k; i++ {
		key := verifrt.Bytes("key", L)
		keys = append(keys, key)
		args = append(args, key)
		if kind == 2 {
			v := verifrt.Bytes("val", V)
			vals = append(vals, v)
			args = append(args, v)
		}
	}
	w.Feed(c, VerifEncode(args...))

	verifrt.Assert(len(h.Msgs) == 1, "decoded_one_request")
	m := h.Msgs[0]
	verifrt.ObserveInt("type", int(m.Type))
	verifrt.ObserveInt("nfrags", len(m.Frags))
	want := []codec.Command{codec.ReqMget, codec.ReqDel, codec.ReqMset}[kind]
	verifrt.Assert(m.Type == want, "type")
	// Keys in original order
	okKeys := len(m.Keys) == k
	for i := 0; okKeys && i < k; i++ {
		okKeys = verifrt.And(okKeys, verifBytesEq([]byte(m.Keys[i]), keys[i]))
	}
	verifrt.Assert(okKeys, "keys_in_order")

	// every fragment is one well-formed command of the same kind
	step := 1
	if kind == 2 {
		step = 2
	}
	type pf struct {
		slot int
		args [][]byte
	}
	var pfs []pf
	allOK := true
	for _, f := range m.Frags {
		fa, ok := verifParseStrict(f.Req)
		verifrt.Assert(ok, "fragment_well_formed")
		verifrt.Assert(len(fa) >= 1+step && (len(fa)-1)%step == 0, "fragment_arity")
		allOK = verifrt.And(allOK, verifEqFold(fa[0], name))
		pfs = append(pfs, pf{int(f.Slot), fa[1:]})
	}
	// every key occurrence goes to exactly one fragment: the one whose slot is the key's
	// specification slot; each fragment's arguments are exactly that subsequence, in order.
	for fi := range pfs {
		pos := 0
		nargs := len(pfs[fi].args) / step
		for i := 0; i < k; i++ {
			belongs := verifSpecSlot(keys[i]) == pfs[fi].slot
			hit := false
			for p := 0; p < nargs; p++ {
				e := verifBytesEq(pfs[fi].args[p*step], keys[i])
				if kind == 2 {
					e = verifrt.And(e, verifBytesEq(pfs[fi].args[p*step+1], vals[i]))
				}
				hit = verifrt.Or(hit, verifrt.And(pos == p, e))
			}
			allOK = verifrt.And(allOK, verifrt.Implies(belongs, hit))
			pos = verifrt.Ite(belongs, pos+1, pos)
		}
		allOK = verifrt.And(allOK, pos == nargs)
	}
	for i := 0; i < k; i++ {
		cnt := 0
		for fi := range pfs {
			cnt = verifrt.Ite(verifSpecSlot(keys[i]) == pfs[fi].slot, cnt+1, cnt)
		}
		allOK = verifrt.And(allOK, cnt == 1)
	}
	verifrt.Assert(allOK, "fragments_are_exact_per_slot_groups")
	verifrt.Assert(c.InboundBuffered() == 0 && c.Opened(), "request_consumed")
	verifrt.Cover("end", true)
}

// HarnessC06History: splitting has no memory. After n identical two-slot MGETs (decoded, answered locally,
// request object recycled each time) a three-slot request - involving one of those slots after two others -
// is still split into one exact fragment per slot. Whatever the splitter keeps between requests (tables,
// generation counters, pooled maps) has gone through n more rounds; n is chosen above 65536 so that 16-bit
// counters have wrapped.
func HarnessC06History(n, fam int) {
	w, h, c := verifDecodeWorld(0)
	first := VerifEncode([]byte("mget"), []byte("{s}1"), []byte("{t}1"))
	other := VerifEncode([]byte("mget"), []byte("{u}1"), []byte("{v}1"))
	h.LocalFirst = n + 1
	w.Feed(c, first)
	for i := 0; i < n; i++ {
		w.Feed(c, other)
		if i%512 == 0 {
			w.Sent(c)
			h.Msgs = nil
		}
	}
	h.Msgs = nil
	w.Sent(c)
	kind := fam // -1: every family
	if kind < 0 {
		kind = verifrt.Choice("family", 3)
	}
	names := []string{"mget", "del", "mset"}
	keys := [][]byte{[]byte("{t}2"), []byte("{u}2"), []byte("{s}2"), []byte("{v}2")}
	args := [][]byte{[]byte(names[kind])}
	for _, k := range keys {
		args = append(args, k)
		if kind == 2 {
			args = append(args, []byte("val"))
		}
	}
	h.LocalFirst = 0
	w.Feed(c, VerifEncode(args...))
	verifrt.Assert(len(h.Msgs) == 1 && len(h.Msgs[0].Frags) == 4, "one_fragment_per_slot")
	for _, f := range h.Msgs[0].Frags {
		fa, ok := verifParseStrict(f.Req)
		verifrt.Assert(ok && len(fa) == 2+kind/2, "fragment_well_formed")
		verifrt.Assert(int(f.Slot) == verifSpecSlot(fa[1]), "fragment_holds_exactly_the_keys_of_its_slot")
	}
	verifrt.Cover("end", true)
}

var _ = hashkit.Hash

func init() {
	verifrt.Register("HarnessC06", func(p []int64) { HarnessC06(int(p[0]), int(p[1]), int(p[2]), int(p[3])) })
	verifrt.Register("HarnessC06History", func(p []int64) { HarnessC06History(int(p[0]), int(p[1])) })
	verifrt.Register("HarnessC06Refused", func(p []int64) { HarnessC06Refused(int(p[0]), int(p[1]), int(p[2]), int(p[3])) })
	verifrt.Register("HarnessC06Warm", func(p []int64) { HarnessC06Warm(int(p[0]), int(p[1]), int(p[2]), int(p[3])) })
}

// VerifSpecHash is the key-slot specification with hashkit.Hash's signature; jobs that summarise
// Hash (justified by C05) redirect calls to it.
func VerifSpecHash(key string) int32 { return int32(verifSpecSlot([]byte(key))) }

// ---------------------------------------------------------------------------------------------
// A model of what a Redis server does with a query buffer (networking.c, processMultibulkBuffer),
// used to judge bytes the proxy forwards to a backend and bytes a client sent.
// It is deliberately as lenient as Redis: the byte after '\r' and the two bytes after a bulk
// payload are skipped unchecked; lengths go through string2ll (no leading zeros, optional '-').
// ---------------------------------------------------------------------------------------------

const (
	VerifRedisOK      = 0 // consumed one or more complete requests, nothing left
	VerifRedisPartial = 1 // needs more bytes
	VerifRedisError   = 2 // protocol error (connection would be closed by Redis)
	VerifRedisInline  = 3 // first byte is not '*': inline command path
	VerifRedisEmpty   = 4 // a multibulk count <= 0: silently ignored by Redis (no reply)
)

// verifString2ll mirrors util.c string2ll on b (which may contain symbolic bytes). It is written
// without data-dependent branches: the verdict is one boolean term and the value one integer term,
// so a long field costs one decision, not one per digit.
func verifString2ll(b []byte) (v int, ok bool) {
	n := len(b)
	if n == 0 {
		return 0, false
	}
	single0 := n == 1 && b[0] == '0'
	neg := b[0] == '-'
	// digits start at index 1 when negative, else 0; the first digit must be 1..9
	good := true
	val := 0
	over := false
	for i := 0; i < n; i++ {
		c := b[i]
		isDigit := verifrt.And(c >= '0', c <= '9')
		isFirst := verifrt.Or(verifrt.And(i == 0, verifrt.Not(neg)), verifrt.And(i == 1, neg))
		signPos := verifrt.And(i == 0, neg)
		okHere := verifrt.Or(signPos, verifrt.And(isDigit, verifrt.Implies(isFirst, c != '0')))
		good = verifrt.And(good, okHere)
		d := verifrt.Ite(isDigit, int(c-'0'), 0)
		val = verifrt.Ite(signPos, val, val*10+d)
		over = verifrt.Or(over, val > 1<<31)
		val = verifrt.Ite(over, 1<<32, val) // saturate: the exact value no longer matters
	}
	good = verifrt.And(good, verifrt.Not(verifrt.And(neg, n == 1)))
	good = verifrt.And(good, verifrt.Not(over))
	val = verifrt.Ite(neg, -val, val)
	if single0 {
		return 0, true
	}
	if good {
		return val, true
	}
	return 0, false
}

// VerifRedisParse consumes b as Redis would. It returns the status after the last byte, the number
// of complete non-empty requests seen, and their argument vectors.
func VerifRedisParse(b []byte) (status int, reqs [][][]byte) {
	p := 0
	for p < len(b) {
		if b[p] != '*' {
			return VerifRedisInline, reqs
		}
		cr := -1
		for i := p; i < len(b); i++ {
			if b[i] == '\r' {
				cr = i
				break
			}
		}
		if cr < 0 || cr+1 >= len(b) {
			return VerifRedisPartial, reqs
		}
		n, ok := verifString2ll(b[p+1 : cr])
		if !ok || n > 1024*1024 {
			return VerifRedisError, reqs
		}
		p = cr + 2
		if n <= 0 {
			return VerifRedisEmpty, reqs
		}
		var args [][]byte
		for k := 0; k < n; k++ {
			cr = -1
			for i := p; i < len(b); i++ {
				if b[i] == '\r' {
					cr = i
					break
				}
			}
			if cr < 0 || cr+1 >= len(b) {
				return VerifRedisPartial, reqs
			}
			if b[p] != '$' {
				return VerifRedisError, reqs
			}
			l, ok := verifString2ll(b[p+1 : cr])
			if !ok || l < 0 || l > 512*1024*1024 {
				return VerifRedisError, reqs
			}
			p = cr + 2
			if len(b)-p < l+2 {
				return VerifRedisPartial, reqs
			}
			args = append(args, b[p:p+l])
			p += l + 2
		}
		reqs = append(reqs, args)
	}
	return VerifRedisOK, reqs
}

// VerifStrictScan is the line-based reference recogniser for client requests. Malformed is only
// ever decided on a complete (LF-terminated) line or a complete payload, so a proxy that waits for
// the line end is never asked to know more than the bytes tell it.
const (
	VerifScanOK        = 0
	VerifScanPartial   = 1
	VerifScanMalformed = 2
)

func VerifStrictScan(b []byte) (status int, nreq int) {
	p := 0
	line := func() (content []byte, st int) {
		lf := -1
		for i := p; i < len(b); i++ {
			if b[i] == '\n' {
				lf = i
				break
			}
		}
		if lf < 0 {
			return nil, VerifScanPartial
		}
		if lf-p < 1 || b[lf-1] != '\r' {
			p = lf + 1
			return nil, VerifScanMalformed
		}
		content = b[p : lf-1]
		p = lf + 1
		return content, VerifScanOK
	}
	for p < len(b) {
		c, st := line()
		if st != VerifScanOK {
			return st, nreq
		}
		if len(c) < 1 || c[0] != '*' {
			return VerifScanMalformed, nreq
		}
		n, ok := verifString2ll(c[1:])
		if !ok || n < 1 {
			return VerifScanMalformed, nreq
		}
		for k := 0; k < n; k++ {
			c, st := line()
			if st != VerifScanOK {
				return st, nreq
			}
			if len(c) < 1 || c[0] != '$' {
				return VerifScanMalformed, nreq
			}
			l, ok := verifString2ll(c[1:])
			if !ok || l < 0 {
				return VerifScanMalformed, nreq
			}
			if len(b)-p < l+2 {
				return VerifScanPartial, nreq
			}
			if b[p+l] != '\r' || b[p+l+1] != '\n' {
				return VerifScanMalformed, nreq
			}
			p += l + 2
		}
		nreq++
	}
	return VerifScanOK, nreq
}

func VerifSpecSlotOf(k []byte) int { return verifSpecSlot(k) }
