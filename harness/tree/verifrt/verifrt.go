//go:build verif

// Package verifrt is the harness API. Under the symbolic executor (gosym) every function here is
// intercepted by name and its body is ignored; compiled natively the bodies below replay a
// witness file (VERIF_REPLAY) so that the same harness runs against the real build.
package verifrt

import (
	"encoding/json"
	"fmt"
	"os"
	"runtime/debug"
	"time"
)

type inputVal struct {
	Label string  `json:"label"`
	Kind  string  `json:"kind"`
	Ints  []int64 `json:"ints,omitempty"`
	Bytes []byte  `json:"bytes,omitempty"`
}

type obsVal struct {
	Label string `json:"label"`
	Kind  string `json:"kind"`
	Int   int64  `json:"int,omitempty"`
	Bytes []byte `json:"bytes,omitempty"`
}

type Witness struct {
	Job    string     `json:"job"`
	Pkg    string     `json:"pkg"`
	Func   string     `json:"func"`
	Params []int64    `json:"params"`
	Inputs []inputVal `json:"inputs"`
	Obs    []obsVal   `json:"observations,omitempty"`
	Expect string     `json:"expect"`
}

// Outcome of a native replay.
type Outcome struct {
	Failed      []string `json:"failed_asserts"`
	Panic       string   `json:"panic,omitempty"`
	Stack       string   `json:"stack,omitempty"`
	Diverged    string   `json:"diverged,omitempty"`
	AssumeFalse bool     `json:"assume_false,omitempty"`
	Obs         []obsVal `json:"observations"`
	Covers      []string `json:"covers,omitempty"`
}

var (
	cur      *Witness
	pos      int
	out      *Outcome
	registry = map[string]func(p []int64){}
)

// Register makes a harness callable by name from the native replay entry point.
func Register(name string, f func(p []int64)) { registry[name] = f }

// ReplayMain replays the witness named by VERIF_REPLAY and writes the outcome to VERIF_OUT.
// It reports false when there is nothing to replay.
func ReplayMain() bool {
	path := os.Getenv("VERIF_REPLAY")
	if path == "" {
		return false
	}
	w, err := Begin(path)
	if err != nil {
		panic(err)
	}
	f, ok := registry[w.Func]
	if !ok {
		panic("verifrt: harness not registered: " + w.Func)
	}
	o := Run(func() { f(w.Params) })
	b, _ := json.Marshal(o)
	if err := os.WriteFile(os.Getenv("VERIF_OUT"), b, 0o644); err != nil {
		panic(err)
	}
	return true
}

type stopT struct{}
type divergeT struct{ msg string }

// Begin loads a witness for replay.
func Begin(path string) (*Witness, error) {
	b, err := os.ReadFile(path)
	if err != nil {
		return nil, err
	}
	w := &Witness{}
	if err := json.Unmarshal(b, w); err != nil {
		return nil, err
	}
	cur, pos, out = w, 0, &Outcome{}
	return w, nil
}

// Run executes f under the loaded witness, capturing panics.
func Run(f func()) *Outcome {
	func() {
		defer func() {
			if r := recover(); r != nil {
				switch x := r.(type) {
				case stopT:
				case divergeT:
					out.Diverged = x.msg
				default:
					out.Panic = fmt.Sprint(r)
					out.Stack = string(debug.Stack())
				}
			}
		}()
		f()
	}()
	return out
}

func next(label, kind string) *inputVal {
	if cur == nil {
		panic(divergeT{"no witness loaded"})
	}
	if pos >= len(cur.Inputs) {
		panic(divergeT{fmt.Sprintf("input %q (%s) requested beyond the %d recorded inputs", label, kind, len(cur.Inputs))})
	}
	iv := &cur.Inputs[pos]
	pos++
	if iv.Label != label || iv.Kind != kind {
		panic(divergeT{fmt.Sprintf("input %d: harness asks %q/%s, witness has %q/%s", pos-1, label, kind, iv.Label, iv.Kind)})
	}
	return iv
}

func Byte(label string) byte { return next(label, "byte").Bytes[0] }
func Bytes(label string, n int) []byte {
	iv := next(label, "bytes")
	if len(iv.Bytes) != n {
		panic(divergeT{fmt.Sprintf("input %q: want %d bytes, witness has %d", label, n, len(iv.Bytes))})
	}
	b := make([]byte, n)
	copy(b, iv.Bytes)
	return b
}
func Int(label string, lo, hi int) int {
	v := int(next(label, "int").Ints[0])
	if v < lo || v > hi {
		panic(divergeT{fmt.Sprintf("input %q=%d outside [%d,%d]", label, v, lo, hi)})
	}
	return v
}
func Bool(label string) bool          { return next(label, "bool").Ints[0] != 0 }
func Choice(label string, n int) int  { return int(next(label, "choice").Ints[0]) }
func Assume(c bool) {
	if !c {
		out.AssumeFalse = true
		panic(stopT{})
	}
}
func Assert(c bool, id string) {
	if !c {
		out.Failed = append(out.Failed, id)
		panic(stopT{})
	}
}
func Known(id string, class bool)        {}
func Cover(key string, c bool) {
	if c {
		out.Covers = append(out.Covers, key)
	}
}
func Goal(key string)                    {}
func ObserveInt(label string, v int)     { out.Obs = append(out.Obs, obsVal{Label: label, Kind: "int", Int: int64(v)}) }
func ObserveBool(label string, v bool) {
	o := obsVal{Label: label, Kind: "bool"}
	if v {
		o.Int = 1
	}
	out.Obs = append(out.Obs, o)
}
func ObserveBytes(label string, b []byte) {
	out.Obs = append(out.Obs, obsVal{Label: label, Kind: "bytes", Bytes: append([]byte{}, b...)})
}
func ObserveStr(label string, s string) {
	out.Obs = append(out.Obs, obsVal{Label: label, Kind: "bytes", Bytes: []byte(s)})
}
func And(a, b bool) bool     { return a && b }
func Or(a, b bool) bool      { return a || b }
func Not(a bool) bool        { return !a }
func Implies(a, b bool) bool { return !a || b }
func Ite(c bool, a, b int) int {
	if c {
		return a
	}
	return b
}
func IteByte(c bool, a, b byte) byte {
	if c {
		return a
	}
	return b
}
func IteU32(c bool, a, b uint32) uint32 {
	if c {
		return a
	}
	return b
}
func IteBool(c bool, a, b bool) bool {
	if c {
		return a
	}
	return b
}
func Concretize(x int) int     { return x }
func Sleep(ms int)             { time.Sleep(time.Duration(ms) * time.Millisecond) }
func Symbolic() bool           { return false }
func LimitWrites(fd int, n int) {}

// WantsWrite: is the descriptor registered for writable events? Epoll reports a socket writable only then.
// (Model only: a native run cannot ask epoll for its interest list and answers yes.)
func WantsWrite(fd int) bool { return true }

// SetTicks: the next time.NewTicker channel is pre-loaded with n ticks (model only: a native run has real tickers).
func SetTicks(n int) {}
func Note(s string) {
	if os.Getenv("VERIF_TRACE") != "" {
		fmt.Fprintln(os.Stderr, "    "+s)
	}
}
func Stop()                    { panic(stopT{}) }

// PutFile writes a file the code under test will read.
func PutFile(name string, content []byte) {
	if err := os.WriteFile(name, content, 0o644); err != nil {
		panic(err)
	}
}

// TempDir returns a scratch directory (removed by the replay driver's temp dir clean-up).
func TempDir() string {
	d, err := os.MkdirTemp("", "verifrt-")
	if err != nil {
		panic(err)
	}
	return d
}

// RunUntilBlocked runs a goroutine body until it parks (true) or returns (false).
func RunUntilBlocked(f func()) bool {
	done := make(chan struct{})
	go func() { defer close(done); f() }()
	select {
	case <-done:
		return false
	case <-time.After(150 * time.Millisecond):
		return true
	}
}
