#!/usr/bin/env python3
"""Import a seeded change produced by a sub-agent and confirm it independently in a scratch worktree.
usage: tools_seed_import.py <name> <property> <src-dir> <demo.go:pkgdir> [...]   e.g.  S-C05 C05 /tmp/seed_out_C05 c05_demo_test.go:core/pkg/hashkit
Confirms: patch applies to /repo HEAD, builds, the 35 baseline tests still pass, the demonstration passes without
and fails with the change. Writes /verif/seeded/<name>/{patch.diff,demo files,meta.json}."""
import subprocess, sys, os, json, shutil, re
name, prop, src = sys.argv[1:4]; demos = [d.split(":") for d in sys.argv[4:]]
env = dict(os.environ, GOFLAGS="-mod=mod", GOPROXY="off", GOSUMDB="off", GOTOOLCHAIN="local")
def sh(cmd, cwd=None): return subprocess.run(cmd, shell=True, cwd=cwd, env=env, capture_output=True, text=True, errors='replace')
wt = "/tmp/seedverify_" + name
sh(f"git -C /repo worktree remove --force {wt}"); shutil.rmtree(wt, ignore_errors=True)
r = sh(f"git -C /repo worktree add --detach {wt} HEAD"); assert r.returncode == 0, r.stderr
out = {"name": name, "property": prop, "needs_to_manifest": os.environ.get("NEEDS", "see NOTES.md"), "origin": os.environ.get("ORIGIN", "fresh sub-agent given only the property text and a scratch worktree"), "ran": []}
try:
    def demo(label):
        res = {}
        for f, d in demos:
            shutil.copy(os.path.join(src, f), os.path.join(wt, d, f))
        for d in sorted(set(d for _, d in demos)):
            names = "|".join(sorted(set(re.findall(r"^func (Test\w+)", open(os.path.join(src, f)).read(), re.M)[0:50][i] for f, dd in demos if dd == d for i in range(len(re.findall(r"^func (Test\w+)", open(os.path.join(src, f)).read(), re.M))))))
            p = sh(f"go test -vet=off -count=1 -timeout 120s -run '^({names})$' ./{d}/", cwd=wt)
            res[d] = p.returncode
            out["ran"].append({"when": label, "cmd": f"go test -run '^({names})$' ./{d}/", "exit": p.returncode, "tail": (p.stdout + p.stderr)[-400:]})
        for f, d in demos:
            os.remove(os.path.join(wt, d, f))
        return res
    base = demo("without change")
    assert all(v == 0 for v in base.values()), f"demo does not pass on the unchanged tree: {base} {out['ran'][-1]['tail']}"
    r = sh(f"git apply {src}/patch.diff", cwd=wt); assert r.returncode == 0, "patch does not apply: " + r.stderr
    r = sh("go build ./...", cwd=wt); assert r.returncode == 0, "does not build: " + r.stderr
    p = sh("go test -json -vet=off -count=1 -timeout 10m ./...", cwd=wt)
    res = {}
    for l in p.stdout.splitlines():
        try: e = json.loads(l)
        except Exception: continue
        if e.get("Test") and e.get("Action") in ("pass", "fail"): res[e["Package"] + "::" + e["Test"]] = e["Action"]
    stable = json.load(open("/root/.vp/BASELINE.json"))["stable_pass"]
    bad = [t for t in stable if res.get(t) != "pass"]
    assert not bad, f"baseline tests broken by the change: {bad}"
    out["baseline_with_change"] = f"{len(stable)}/{len(stable)} stable tests pass"
    mut = demo("with change")
    assert any(v != 0 for v in mut.values()), f"demo does not fail with the change: {mut}"
    dst = f"/verif/seeded/{name}"; os.makedirs(dst, exist_ok=True)
    shutil.copy(f"{src}/patch.diff", dst)
    for f, d in demos: shutil.copy(os.path.join(src, f), dst)
    if os.path.exists(f"{src}/NOTES.md"): shutil.copy(f"{src}/NOTES.md", dst)
    out["demo_files"] = {f: d for f, d in demos}
    out["confirmed"] = "patch applies to /repo HEAD, builds, stable baseline passes, demo passes without and fails with the change"
    json.dump(out, open(f"{dst}/meta.json", "w"), indent=1)
    print("CONFIRMED", name)
finally:
    sh(f"git -C /repo worktree remove --force {wt}"); shutil.rmtree(wt, ignore_errors=True)
